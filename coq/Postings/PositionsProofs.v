(* Round trip of the positions stream of one term, for position-delta lists of ANY length.
   Model: Postings/Positions.v (PositionSerializer::{write_positions_delta, flush_block, close_term} vs
   PositionReader::{open, load_block, read}).  The 128-value bit-packed block codec is the same abstract
   codec as in Postings/Codec.v (Section variables + contract).
   Main statements:
     pos_read_serialize   read (serialize ds) offset len = firstn len (skipn offset ds)   for every window
     positions_of_window  the deltas of a window are turned back into positions (cum += delta)
     positions_of_kth     the positions of the k-th document of a term are recovered from the cumulative
                          term frequencies, whatever the split "position_offset of the block" + "tfs of the
                          documents before the cursor inside the block"
   The same statement addressed the way SegmentPostings does it, through the blocks that C07_blocks exposes
   (b_posoff + sum (firstn cur b_tfs)) after any call program, is SeekProofs.sp_positions_list. *)
From TV Require Import Base.Prelude Generated.Constants Postings.VInt Postings.Codec Postings.Positions.
Local Open Scope N_scope.

Lemma PBLOCKn_BLOCKn : PBLOCKn = BLOCKn.
Proof. unfold PBLOCKn, BLOCKn. now rewrite PBLOCK_is_BLOCK. Qed.
Lemma PBLOCKn_pos : (0 < PBLOCKn)%nat.
Proof. rewrite PBLOCKn_BLOCKn. exact BLOCKn_pos. Qed.
Lemma PBLOCKn_N : N.of_nat PBLOCKn = PBLOCK.
Proof. unfold PBLOCKn. apply N2Nat.id. Qed.
Lemma PBLOCK_pos : 0 < PBLOCK.
Proof. rewrite PBLOCK_is_BLOCK. exact BLOCK_pos. Qed.

(* ---- list helpers ---------------------------------------------------------------------------------- *)
Lemma sum_cons x l : sum (x :: l) = x + sum l.
Proof. reflexivity. Qed.

(* the k-th chunk of PBLOCKn values (the last one may be short or empty) *)
Definition pchunk (k : nat) (ds : list N) : list N := firstn PBLOCKn (skipn (k * PBLOCKn) ds).

Lemma pchunk_S k ds : pchunk (S k) ds = pchunk k (skipn PBLOCKn ds).
Proof. unfold pchunk. rewrite skipn_skipn'. f_equal. f_equal. lia. Qed.

Lemma pchunk_length k ds : length (pchunk k ds) = Nat.min PBLOCKn (length ds - k * PBLOCKn).
Proof. unfold pchunk. now rewrite firstn_length, skipn_length. Qed.

(* a window that lies inside one chunk *)
Lemma window_in_chunk k i n (ds : list N) : (i + n <= PBLOCKn)%nat ->
  firstn n (skipn i (pchunk k ds)) = firstn n (skipn (k * PBLOCKn + i) ds).
Proof.
  intros H. unfold pchunk. rewrite skipn_firstn_comm, firstn_firstn, skipn_skipn'.
  replace (Nat.min n (PBLOCKn - i)) with n by lia. f_equal. f_equal. lia.
Qed.

Section PosProofs.
  Variable pack : N -> list N -> bytes.
  Variable unpack : N -> bytes -> list N.
  (* contract of bitpacking::BitPacker4x::{compress, decompress} (the same as in Codec.v) *)
  Hypothesis unpack_pack : forall w xs, length xs = BLOCKn -> Forall (fun x => x < 2 ^ w) xs -> unpack w (pack w xs) = xs.
  Hypothesis pack_length : forall w xs, length xs = BLOCKn -> N.of_nat (length (pack w xs)) = block_size w.

  (* ---- load_block --------------------------------------------------------------------------------- *)

  (* skipping one bit-packed block: the byte offset of block k+1 is the length of the first block plus the byte
     offset of block k in the rest *)
  Lemma pos_block_S w ws P R k : N.of_nat (length P) = block_size w ->
    pos_block unpack (w :: ws) (P ++ R) (S k) = pos_block unpack ws R k.
  Proof.
    intros HP. unfold pos_block. cbn [firstn]. rewrite sum_cons.
    change ((w + sum (firstn k ws)) * PBLOCK / 8) with (block_size (w + sum (firstn k ws))).
    change (sum (firstn k ws) * PBLOCK / 8) with (block_size (sum (firstn k ws))).
    rewrite block_size_add. set (s := block_size (sum (firstn k ws))).
    rewrite app_length, Nat2N.inj_add, HP.
    replace (N.to_nat (block_size w + s)) with (N.to_nat s + length P)%nat by lia.
    rewrite <- skipn_skipn', skipn_app_exact.
    change (S k <? length (w :: ws))%nat with (k <? length ws)%nat. cbn [nth].
    destruct (N.ltb_spec (block_size w + N.of_nat (length R)) (block_size w + s)) as [H1|H1],
             (N.ltb_spec (N.of_nat (length R)) s) as [H2|H2]; try lia; reflexivity.
  Qed.

  Lemma pos_block_0_packed w ws b R : length b = BLOCKn -> Forall (fun x => x < 2 ^ w) b ->
    pos_block unpack (w :: ws) (pack w b ++ R) 0 = ROk b.
  Proof.
    intros Hl Hb. unfold pos_block. cbn [firstn length nth].
    change (sum [] * PBLOCK / 8) with 0. change (N.to_nat 0) with 0%nat. cbn [skipn].
    replace (N.of_nat (length (pack w b ++ R)) <? 0) with false by (symmetry; apply N.ltb_ge; lia).
    change (0 <? S (length ws))%nat with true.
    change (w * PBLOCK / 8) with (block_size w).
    pose proof (pack_length w b Hl) as Hp.
    replace (N.of_nat (length (pack w b ++ R)) <? block_size w) with false
      by (symmetry; apply N.ltb_ge; rewrite app_length; lia).
    replace (N.to_nat (block_size w)) with (length (pack w b)) by lia.
    rewrite firstn_app_exact. f_equal. now apply unpack_pack.
  Qed.

  Lemma pos_block_0_tail tail : (length tail <= PBLOCKn)%nat -> Forall (fun x => x < 2 ^ 32) tail ->
    pos_block unpack [] (vints_enc tail) 0 = ROk tail.
  Proof.
    intros Hl Ht. unfold pos_block. cbn [firstn length].
    change (sum [] * PBLOCK / 8) with 0. change (N.to_nat 0) with 0%nat. cbn [skipn].
    replace (N.of_nat (length (vints_enc tail)) <? 0) with false by (symmetry; apply N.ltb_ge; lia).
    change (0 <? 0)%nat with false. now rewrite vints_dec_all_enc.
  Qed.

  (* what the serializer wrote: nb bit-packed blocks, then the VInt tail *)
  Lemma pos_blocks_shape nb : forall ds, (nb * PBLOCKn <= length ds)%nat ->
    let '(ws, bs, tail) := pos_blocks pack nb ds in
    length ws = nb /\ tail = skipn (nb * PBLOCKn) ds.
  Proof.
    induction nb as [|n IH]; intros ds Hlen; [cbn [pos_blocks length Nat.mul skipn]; auto|].
    cbn [pos_blocks]. specialize (IH (skipn PBLOCKn ds)).
    destruct (pos_blocks pack n (skipn PBLOCKn ds)) as [[ws bs] tail].
    destruct IH as [I1 I2]; [rewrite skipn_length; lia|].
    cbn [length]. split; [lia|]. rewrite I2, skipn_skipn'. f_equal. lia.
  Qed.

  (* load_block(k) of the serialized stream decodes the k-th chunk of the deltas *)
  Lemma pos_block_serialized nb : forall ds k,
    (nb * PBLOCKn <= length ds < nb * PBLOCKn + PBLOCKn)%nat -> Forall (fun x => x < 2 ^ 32) ds -> (k <= nb)%nat ->
    let '(ws, bs, tail) := pos_blocks pack nb ds in
    pos_block unpack ws (bs ++ vints_enc tail) k = ROk (pchunk k ds).
  Proof.
    pose proof PBLOCKn_pos as Hpp.
    induction nb as [|n IH]; intros ds k Hlen Hds Hk.
    - cbn [pos_blocks app]. assert (k = 0%nat) by lia. subst k.
      rewrite pos_block_0_tail; [|lia|exact Hds].
      unfold pchunk. cbn [Nat.mul skipn]. rewrite firstn_all2 by lia. reflexivity.
    - cbn [pos_blocks]. specialize (IH (skipn PBLOCKn ds)).
      destruct (pos_blocks pack n (skipn PBLOCKn ds)) as [[ws bs] tail].
      assert (Hb : length (firstn PBLOCKn ds) = BLOCKn) by (rewrite <- PBLOCKn_BLOCKn; apply firstn_length_le; lia).
      rewrite <- app_assoc.
      destruct k as [|k].
      + rewrite pos_block_0_packed; [|exact Hb|apply num_bits_fits]. reflexivity.
      + rewrite pos_block_S by (apply pack_length; exact Hb).
        rewrite pchunk_S. apply IH; [rewrite skipn_length; lia|now apply Forall_skipn|lia].
  Qed.

  (* ---- read ---------------------------------------------------------------------------------------- *)

  (* the copy loop, started in block k at in-block offset i, for a window inside the stream.
     fuel: one unit per block boundary crossed. *)
  Lemma pos_copy_serialized ws bs tail nb ds :
    pos_blocks pack nb ds = (ws, bs, tail) ->
    (nb * PBLOCKn <= length ds < nb * PBLOCKn + PBLOCKn)%nat -> Forall (fun x => x < 2 ^ 32) ds ->
    forall fuel k i len,
    (i < PBLOCKn)%nat -> (k * PBLOCKn + i + len <= length ds)%nat -> (len <= PBLOCKn - i + fuel * PBLOCKn)%nat ->
    pos_copy unpack fuel ws (bs ++ vints_enc tail) k i len = ROk (firstn len (skipn (k * PBLOCKn + i) ds)).
  Proof.
    intros Es Hlen Hds. pose proof PBLOCKn_pos as Hpp.
    assert (Hblk : forall k, (k <= nb)%nat -> pos_block unpack ws (bs ++ vints_enc tail) k = ROk (pchunk k ds)).
    { intros k Hk. pose proof (pos_block_serialized nb ds k Hlen Hds Hk) as H. now rewrite Es in H. }
    induction fuel as [|f IH]; intros k i len Hi Hwin Hfuel.
    - assert (Hk : (k <= nb)%nat) by nia.
      cbn [pos_copy]. rewrite (Hblk k Hk).
      replace (len <=? PBLOCKn - i)%nat with true by (symmetry; apply Nat.leb_le; lia).
      replace (length (skipn i (pchunk k ds)) <? len)%nat with false
        by (symmetry; apply Nat.ltb_ge; rewrite skipn_length, pchunk_length; lia).
      f_equal. apply window_in_chunk. lia.
    - assert (Hk : (k <= nb)%nat) by nia.
      cbn [pos_copy]. rewrite (Hblk k Hk).
      destruct (Nat.leb_spec len (PBLOCKn - i)) as [Hle|Hgt].
      + replace (length (skipn i (pchunk k ds)) <? len)%nat with false
          by (symmetry; apply Nat.ltb_ge; rewrite skipn_length, pchunk_length; lia).
        f_equal. apply window_in_chunk. lia.
      + replace (length (skipn i (pchunk k ds)) <? PBLOCKn - i)%nat with false
          by (symmetry; apply Nat.ltb_ge; rewrite skipn_length, pchunk_length; lia).
        rewrite IH; [|lia|lia|lia]. f_equal.
        rewrite <- (firstn_all2 (n := PBLOCKn - i) (skipn i (pchunk k ds)))
          by (rewrite skipn_length, pchunk_length; lia).
        rewrite window_in_chunk by lia.
        replace (firstn len (skipn (k * PBLOCKn + i) ds))
          with (firstn ((PBLOCKn - i) + (len - (PBLOCKn - i))) (skipn (k * PBLOCKn + i) ds)) by (f_equal; lia).
        rewrite firstn_add, skipn_skipn'. f_equal. f_equal. f_equal. lia.
  Qed.

  (* PositionReader::open on the serialized stream *)
  Lemma pos_open_serialized ds : N.of_nat (length ds) < 2 ^ 64 ->
    let '(ws, bs, tail) := pos_blocks pack (Nat.div (length ds) PBLOCKn) ds in
    pos_open (pos_serialize pack ds) = Some (ws, bs ++ vints_enc tail).
  Proof.
    intros Hn. pose proof PBLOCKn_pos as Hpp. unfold pos_serialize, pos_open.
    pose proof (pos_blocks_shape (Nat.div (length ds) PBLOCKn) ds) as Hs.
    destruct (pos_blocks pack (Nat.div (length ds) PBLOCKn) ds) as [[ws bs] tail].
    destruct Hs as [Hw _]; [pose proof (Nat.mul_div_le (length ds) PBLOCKn ltac:(lia)); lia|].
    rewrite vint_dec_enc64.
    2:{ rewrite Hw. pose proof (Nat.div_le_upper_bound (length ds) PBLOCKn (length ds) ltac:(lia) ltac:(nia)). lia. }
    replace (N.of_nat (length (ws ++ bs ++ vints_enc tail)) <? N.of_nat (length ws)) with false
      by (symmetry; apply N.ltb_ge; rewrite app_length; lia).
    now rewrite Nat2N.id, firstn_app_exact, skipn_app_exact.
  Qed.

  (* (1) POSITIONS ROUND TRIP: every list of u32 deltas of any length, every window inside it *)
  Theorem pos_read_serialize ds offset len :
    Forall (fun x => x < 2 ^ 32) ds -> N.of_nat (length ds) < 2 ^ 64 ->
    offset + len <= N.of_nat (length ds) ->
    pos_read unpack (pos_serialize pack ds) offset len = ROk (firstn (N.to_nat len) (skipn (N.to_nat offset) ds)).
  Proof.
    intros Hds Hn Hwin. pose proof PBLOCKn_pos as Hpp. pose proof PBLOCK_pos as HP. pose proof PBLOCKn_N as HPN.
    unfold pos_read. pose proof (pos_open_serialized ds Hn) as Ho.
    set (nb := Nat.div (length ds) PBLOCKn) in *.
    destruct (pos_blocks pack nb ds) as [[ws bs] tail] eqn:Es. rewrite Ho.
    assert (Hnb : (nb * PBLOCKn <= length ds < nb * PBLOCKn + PBLOCKn)%nat).
    { unfold nb. pose proof (Nat.div_mod (length ds) PBLOCKn ltac:(lia)).
      pose proof (Nat.mod_upper_bound (length ds) PBLOCKn ltac:(lia)). lia. }
    pose proof (N.div_mod offset PBLOCK ltac:(lia)) as Hdm.
    pose proof (N.mod_lt offset PBLOCK ltac:(lia)) as Hml.
    pose proof (N.div_mod len PBLOCK ltac:(lia)) as Hdl.
    pose proof (N.mod_lt len PBLOCK ltac:(lia)) as Hll.
    rewrite (pos_copy_serialized ws bs tail nb ds Es Hnb Hds).
    - f_equal. f_equal. f_equal. nia.
    - lia.
    - nia.
    - nia.
  Qed.

  (* a window outside the stream is not a round trip question; for the record: the empty window at the very end
     is inside (offset = length, len = 0) *)

  (* ---- positions of a document ----------------------------------------------------------------------- *)

  (* append_positions_with_offset(0): the window of deltas integrated back to positions *)
  Theorem positions_of_window ds position_offset tfs_before tf :
    Forall (fun x => x < 2 ^ 32) ds -> N.of_nat (length ds) < 2 ^ 64 ->
    position_offset + sum tfs_before + tf <= N.of_nat (length ds) ->
    positions_of unpack (pos_serialize pack ds) position_offset tfs_before tf
    = ROk (prefix_sums 0 (firstn (N.to_nat tf) (skipn (N.to_nat (position_offset + sum tfs_before)) ds))).
  Proof.
    intros Hds Hn Hwin. unfold positions_of. rewrite pos_read_serialize by assumption. reflexivity.
  Qed.
End PosProofs.

(* ---- the stream of one term: what SegmentWriter hands to PositionSerializer ---------------------------------- *)

(* recorder.rs (TfAndPositionRecorder::serialize): per document, delta to the previous position of the same
   document, starting from 0; serializer.rs::write_doc passes them on to write_positions_delta *)
Definition term_deltas (pss : list (list N)) : list N := flat_map (deltas 0) pss.
Definition tf_of (ps : list N) : N := N.of_nat (length ps).

Lemma term_deltas_length pss : N.of_nat (length (term_deltas pss)) = sum (map tf_of pss).
Proof.
  induction pss as [|ps r IH]; [reflexivity|].
  unfold term_deltas in *. cbn [flat_map map]. rewrite app_length, deltas_length, sum_cons, <- IH. unfold tf_of. lia.
Qed.

Lemma term_deltas_bound pss : Forall (fun ps => chain_le 0 ps /\ Forall (fun p => p < 2 ^ 32) ps) pss ->
  Forall (fun x => x < 2 ^ 32) (term_deltas pss).
Proof.
  induction 1 as [|ps r [H1 H2] _ IH]; [constructor|].
  unfold term_deltas in *. cbn [flat_map]. apply Forall_app. split; [now apply deltas_bound|exact IH].
Qed.

(* the window of the k-th document inside the concatenation *)
Lemma term_deltas_window pss : forall k, (k < length pss)%nat ->
  firstn (length (nth k pss [])) (skipn (N.to_nat (sum (map tf_of (firstn k pss)))) (term_deltas pss))
  = deltas 0 (nth k pss []).
Proof.
  induction pss as [|ps r IH]; intros k Hk; [cbn [length] in Hk; lia|].
  destruct k as [|k].
  - cbn [firstn map nth]. change (N.to_nat (sum [])) with 0%nat. cbn [skipn].
    unfold term_deltas. cbn [flat_map]. rewrite <- (deltas_length 0 ps). apply firstn_app_exact.
  - cbn [firstn map nth]. rewrite sum_cons. unfold term_deltas. cbn [flat_map]. fold (term_deltas r).
    replace (N.to_nat (tf_of ps + sum (map tf_of (firstn k r))))
      with (N.to_nat (sum (map tf_of (firstn k r))) + length (deltas 0 ps))%nat
      by (rewrite deltas_length; unfold tf_of; lia).
    rewrite <- skipn_skipn', skipn_app_exact. apply IH. cbn [length] in Hk. lia.
Qed.

Theorem positions_of_kth pack unpack
  (unpack_pack : forall w xs, length xs = BLOCKn -> Forall (fun x => x < 2 ^ w) xs -> unpack w (pack w xs) = xs)
  (pack_length : forall w xs, length xs = BLOCKn -> N.of_nat (length (pack w xs)) = block_size w)
  pss k position_offset tfs_before :
  (* per document: positions in recording order (non-decreasing), u32 *)
  Forall (fun ps => chain_le 0 ps /\ Forall (fun p => p < 2 ^ 32) ps) pss ->
  sum (map tf_of pss) < 2 ^ 64 ->
  (k < length pss)%nat ->
  (* any split of the cumulative term frequency of the documents before the k-th *)
  position_offset + sum tfs_before = sum (map tf_of (firstn k pss)) ->
  positions_of unpack (pos_serialize pack (term_deltas pss)) position_offset tfs_before (tf_of (nth k pss []))
  = ROk (nth k pss []).
Proof.
  intros Hwf Hn Hk Hsplit.
  assert (Hsum : sum (map tf_of pss) = sum (map tf_of (firstn k pss)) + tf_of (nth k pss []) + sum (map tf_of (skipn (S k) pss))).
  { rewrite <- (firstn_skipn k pss) at 1. rewrite map_app, sum_app.
    assert (E : skipn k pss = nth k pss [] :: skipn (S k) pss).
    { clear -Hk. revert k Hk. induction pss as [|p r IH]; intros k Hk; [cbn [length] in Hk; lia|].
      destruct k as [|k]; [reflexivity|]. cbn [skipn nth]. apply IH. cbn [length] in Hk. lia. }
    rewrite E. cbn [map]. rewrite sum_cons. lia. }
  rewrite (positions_of_window pack unpack unpack_pack pack_length).
  - rewrite Hsplit. unfold tf_of at 1. rewrite Nat2N.id, term_deltas_window by exact Hk.
    f_equal. apply prefix_sums_deltas.
    rewrite Forall_forall in Hwf. apply (Hwf (nth k pss [])). now apply nth_In.
  - now apply term_deltas_bound.
  - now rewrite term_deltas_length.
  - rewrite term_deltas_length. lia.
Qed.
