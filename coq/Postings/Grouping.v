(* How a document's (field, value) pairs reach the per-field position assignment.
   /repo/src/indexer/segment_writer.rs  SegmentWriter::index_document:
       doc.iter_fields_and_values().sorted_by_key(|(field, _)| *field).chunk_by(|(field, _)| *field)
       for (field, field_values) in groups { ... for value in values { postings_writer.index_text(..,&mut indexing_position) } }
   /repo/src/postings/postings_writer.rs  index_text (Spec.value_occ / Spec.group_occ): positions are assigned value
   after value, the next value starting at end_position + POSITION_GAP.
   `sorted_by_key` is itertools' STABLE sort (Vec::sort_by_key); it is modelled as a stable insertion sort.  What the
   property needs from it: the values of one field are indexed in the order in which they were added to the
   document, wherever the values of the other fields were added in between. *)
From TV Require Import Base.Prelude Generated.Constants Postings.Codec Postings.FieldNorm Postings.Spec.
Local Open Scope N_scope.

Section Grouping.
  Context {A : Type}.
  Definition fval := (N * A)%type.               (* field id, value *)

  (* stable insertion: before the first element whose key is not smaller *)
  Fixpoint insert_stable (x : fval) (l : list fval) : list fval :=
    match l with
    | [] => [x]
    | y :: r => if fst x <=? fst y then x :: l else y :: insert_stable x r
    end.
  Definition sort_stable (l : list fval) : list fval := fold_right insert_stable [] l.

  Definition of_field (f : N) (l : list fval) : list fval := filter (fun p => fst p =? f) l.
  (* chunk_by(field) on the sorted pairs: the chunk of field f *)
  Definition grouped_values (f : N) (doc : list fval) : list A := map snd (of_field f (sort_stable doc)).
  (* the values of field f in the order in which they were added *)
  Definition field_values (f : N) (doc : list fval) : list A := map snd (of_field f doc).

  Lemma of_field_insert f x l :
    of_field f (insert_stable x l) = if fst x =? f then x :: of_field f l else of_field f l.
  Proof.
    induction l as [|y r IH]; [cbn [insert_stable of_field filter]; destruct (fst x =? f); reflexivity|].
    cbn [insert_stable]. destruct (fst x <=? fst y) eqn:E.
    - cbn [of_field filter]. destruct (fst x =? f); reflexivity.
    - apply N.leb_gt in E. cbn [of_field filter]. fold (of_field f (insert_stable x r)). fold (of_field f r). rewrite IH.
      destruct (fst y =? f) eqn:Ey; [|reflexivity].
      destruct (fst x =? f) eqn:Ex; [|reflexivity].
      apply N.eqb_eq in Ey, Ex. lia.
  Qed.

  Lemma of_field_sort f l : of_field f (sort_stable l) = of_field f l.
  Proof.
    induction l as [|x l IH]; [reflexivity|]. cbn [sort_stable fold_right]. fold (sort_stable l).
    rewrite of_field_insert, IH. cbn [of_field filter]. reflexivity.
  Qed.

  (* the group of a field lists its values in document order *)
  Theorem grouped_values_in_document_order f doc : grouped_values f doc = field_values f doc.
  Proof. unfold grouped_values, field_values. now rewrite of_field_sort. Qed.

  Fixpoint sorted_keys (l : list fval) : Prop :=
    match l with [] => True | x :: r => match r with [] => True | y :: _ => fst x <= fst y end /\ sorted_keys r end.
  Lemma insert_sorted x l : sorted_keys l -> sorted_keys (insert_stable x l).
  Proof.
    induction l as [|y r IH]; intros H; [cbn; auto|].
    cbn [insert_stable]. destruct (fst x <=? fst y) eqn:E.
    - apply N.leb_le in E. split; [exact E|exact H].
    - apply N.leb_gt in E. destruct H as [H1 H2]. specialize (IH H2). split; [|exact IH].
      destruct r as [|z r']; [cbn [insert_stable]; lia|].
      cbn [insert_stable]. destruct (fst x <=? fst z); [lia|exact H1].
  Qed.
  Theorem sort_stable_sorted l : sorted_keys (sort_stable l).
  Proof. induction l as [|x l IH]; [exact I|]. cbn [sort_stable fold_right]. now apply insert_sorted. Qed.
End Grouping.

(* ---- positions of a text field -------------------------------------------------------------------------------- *)
(* a document as it is handed to add_document: (field, token stream of the value) in insertion order *)
Definition rawdoc := list (N * value).

(* what index_document does for text field f: one IndexingPosition for the whole group, value after value *)
Definition field_occ_impl (f : N) (doc : rawdoc) : list (bytes * N) := group_occ 0 (grouped_values f doc).
(* what the property says: the field's values in document order *)
Definition field_docin (f : N) (doc : rawdoc) : docin := [(true, field_values f doc)].

Theorem field_occ_in_document_order f doc : field_occ_impl f doc = group_occ 0 (field_values f doc).
Proof. unfold field_occ_impl. now rewrite grouped_values_in_document_order. Qed.

(* the positions recorded for a field depend only on the sequence of that field's values in document order *)
Theorem field_occ_depends_on_own_values f d1 d2 :
  field_values f d1 = field_values f d2 -> field_occ_impl f d1 = field_occ_impl f d2.
Proof. intros H. now rewrite !field_occ_in_document_order, H. Qed.

(* in particular values of other fields added in between are irrelevant *)
Theorem field_occ_ignores_other_fields f g v (d1 d2 : rawdoc) :
  g <> f -> field_occ_impl f (d1 ++ (g, v) :: d2) = field_occ_impl f (d1 ++ d2).
Proof.
  intros Hg. apply field_occ_depends_on_own_values. unfold field_values, of_field.
  rewrite !filter_app. cbn [filter fst]. replace (g =? f) with false by (symmetry; apply N.eqb_neq; exact Hg). reflexivity.
Qed.
