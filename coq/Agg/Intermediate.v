(* C14 -- intermediate aggregation results as mergeable trees.

   src/aggregation/intermediate_agg_result.rs:
     IntermediateAggregationResults { aggs_res: FxHashMap<String, IntermediateAggregationResult> }
     IntermediateBucketResult::{Range, Histogram, Terms, Filter}  (maps  bucket key -> entry)
     Intermediate{Range,Histogram,Term}BucketEntry { doc_count, sub_aggregation }
     IntermediateMetricResult::{Count,Sum,Min,Max,Average,Stats}  (all wrap IntermediateStats)
   Every node of that tree is "an accumulator + a map from keys to child nodes", and every
   `merge_fruits` is "combine the accumulators, take the key-wise union of the maps and merge the
   children that occur on both sides" (`merge_maps`, `merge_join_by` for histograms,
   `IntermediateAggregationResults::merge_fruits` for the name -> aggregation map).
   The model is therefore one tree type (`trie`) whose child maps are kept in canonical form
   (strictly sorted key lists = the finite map that an FxHashMap / sorted Vec denotes), and one
   `tmerge`.  This file is generic in the accumulator; Agg/Metrics.v supplies it. *)
From TV Require Import Base.Prelude.
From Coq Require Import Permutation.

(* ------------------------------------------------------------------------------------------ *)
(* Keys: IntermediateKey::{I64,U64,F64 (integral)} -> KZ, IntermediateKey::Str -> KS (utf-8 bytes);
   positions of histogram buckets, indices of range buckets and of sub-aggregations -> KZ.     *)
Inductive key := KZ (z : Z) | KS (s : list N).

Fixpoint lex_cmp (a b : list N) : comparison :=
  match a, b with
  | [], [] => Eq
  | [], _ :: _ => Lt
  | _ :: _, [] => Gt
  | x :: a', y :: b' => match N.compare x y with Eq => lex_cmp a' b' | c => c end
  end.

Definition key_cmp (a b : key) : comparison :=
  match a, b with
  | KZ x, KZ y => Z.compare x y
  | KZ _, KS _ => Lt
  | KS _, KZ _ => Gt
  | KS x, KS y => lex_cmp x y
  end.

Lemma lex_cmp_eq a b : lex_cmp a b = Eq <-> a = b.
Proof.
  revert b; induction a as [|x a IH]; intros [|y b]; cbn [lex_cmp]; try (split; [discriminate|discriminate]); [tauto|].
  destruct (N.compare x y) eqn:E.
  - apply N.compare_eq_iff in E; subst. rewrite IH. split; [intros ->; reflexivity|intros H; injection H; auto].
  - split; [discriminate|]. intros H; injection H as -> ->. rewrite N.compare_refl in E; discriminate.
  - split; [discriminate|]. intros H; injection H as -> ->. rewrite N.compare_refl in E; discriminate.
Qed.

Lemma lex_cmp_antisym a b : lex_cmp b a = CompOpp (lex_cmp a b).
Proof.
  revert b; induction a as [|x a IH]; intros [|y b]; cbn [lex_cmp]; try reflexivity.
  rewrite (N.compare_antisym x y). destruct (N.compare x y); cbn [CompOpp]; auto.
Qed.

Lemma lex_cmp_trans a b c : lex_cmp a b = Lt -> lex_cmp b c = Lt -> lex_cmp a c = Lt.
Proof.
  revert b c; induction a as [|x a IH]; intros [|y b] [|z c]; cbn [lex_cmp]; try discriminate; try reflexivity.
  destruct (N.compare x y) eqn:E1; try discriminate.
  - apply N.compare_eq_iff in E1; subst. destruct (N.compare y z); try discriminate; eauto.
  - intros _. destruct (N.compare y z) eqn:E2; try discriminate.
    + apply N.compare_eq_iff in E2; subst. rewrite E1; reflexivity.
    + intros _. assert (H : (x ?= z)%N = Lt) by (rewrite N.compare_lt_iff in *; lia). rewrite H; reflexivity.
Qed.

Lemma key_cmp_eq a b : key_cmp a b = Eq <-> a = b.
Proof.
  destruct a as [x|x], b as [y|y]; cbn [key_cmp]; try (split; discriminate).
  - rewrite Z.compare_eq_iff. split; [intros ->; reflexivity|intros H; injection H; auto].
  - rewrite lex_cmp_eq. split; [intros ->; reflexivity|intros H; injection H; auto].
Qed.

Lemma key_cmp_refl a : key_cmp a a = Eq.
Proof. apply key_cmp_eq; reflexivity. Qed.

Lemma key_cmp_antisym a b : key_cmp b a = CompOpp (key_cmp a b).
Proof.
  destruct a as [x|x], b as [y|y]; cbn [key_cmp CompOpp]; try reflexivity.
  - apply Z.compare_antisym.
  - apply lex_cmp_antisym.
Qed.

Lemma key_cmp_trans a b c : key_cmp a b = Lt -> key_cmp b c = Lt -> key_cmp a c = Lt.
Proof.
  destruct a as [x|x], b as [y|y], c as [z|z]; cbn [key_cmp]; try discriminate; try reflexivity.
  - rewrite !Z.compare_lt_iff; lia.
  - apply lex_cmp_trans.
Qed.

Lemma key_cmp_gt_lt a b : key_cmp a b = Gt -> key_cmp b a = Lt.
Proof. intros H. rewrite key_cmp_antisym, H. reflexivity. Qed.

Definition key_eqb (a b : key) : bool := match key_cmp a b with Eq => true | _ => false end.
Lemma key_eqb_eq a b : key_eqb a b = true <-> a = b.
Proof. unfold key_eqb. rewrite <- key_cmp_eq. destruct (key_cmp a b); split; congruence. Qed.

(* ------------------------------------------------------------------------------------------ *)
(* Finite maps as strictly sorted association lists. *)
Section SMap.
  Context {V : Type}.
  Notation smap := (list (key * V)).

  Fixpoint lookup (k : key) (m : smap) : option V :=
    match m with
    | [] => None
    | (k', v) :: r => match key_cmp k k' with Eq => Some v | _ => lookup k r end
    end.

  Definition lb (k : key) (m : smap) : Prop :=
    match m with [] => True | (k', _) :: _ => key_cmp k k' = Lt end.

  Fixpoint sorted (m : smap) : Prop :=
    match m with [] => True | (k, _) :: r => lb k r /\ sorted r end.

  Lemma lookup_below k k' m : sorted m -> lb k m -> (k' = k \/ key_cmp k' k = Lt) -> lookup k' m = None.
  Proof.
    revert k; induction m as [|[k2 v] r IH]; intros k Hs Hl Hk; [reflexivity|].
    cbn [lookup lb sorted] in *. destruct Hs as [Hl2 Hs].
    assert (E : key_cmp k' k2 = Lt) by (destruct Hk as [->|Hk]; [assumption|eapply key_cmp_trans; eassumption]).
    rewrite E. apply (IH k2); auto.
  Qed.

  Lemma lookup_in k m v : lookup k m = Some v -> In (k, v) m.
  Proof.
    induction m as [|[k2 v2] r IH]; cbn [lookup]; [discriminate|].
    destruct (key_cmp k k2) eqn:E; intros H.
    - apply key_cmp_eq in E; subst. injection H as ->. left; reflexivity.
    - right; auto.
    - right; auto.
  Qed.

  Lemma in_lookup k m v : sorted m -> In (k, v) m -> lookup k m = Some v.
  Proof.
    induction m as [|[k2 v2] r IH]; cbn [lookup sorted In]; [tauto|].
    intros [Hl Hs] [E|Hin].
    - injection E as -> ->. rewrite key_cmp_refl. reflexivity.
    - destruct (key_cmp k k2) eqn:E.
      + apply key_cmp_eq in E; subst. rewrite (lookup_below k2 k2 r Hs Hl (or_introl eq_refl)) in IH.
        specialize (IH Hs Hin). discriminate.
      + assert (X : lookup k r = None) by (apply (lookup_below k2 k r Hs Hl); right; exact E).
        rewrite (IH Hs Hin) in X. discriminate.
      + auto.
  Qed.

  Lemma smap_ext a b : sorted a -> sorted b -> (forall k, lookup k a = lookup k b) -> a = b.
  Proof.
    revert b; induction a as [|[k1 v1] a IH]; intros [|[k2 v2] b] Sa Sb H.
    - reflexivity.
    - specialize (H k2). cbn [lookup] in H. rewrite key_cmp_refl in H. discriminate.
    - specialize (H k1). cbn [lookup] in H. rewrite key_cmp_refl in H. discriminate.
    - cbn [sorted] in Sa, Sb. destruct Sa as [La Sa], Sb as [Lb Sb].
      destruct (key_cmp k1 k2) eqn:E.
      + apply key_cmp_eq in E; subst k2.
        pose proof (H k1) as H1. cbn [lookup] in H1. rewrite key_cmp_refl in H1. injection H1 as ->.
        f_equal. apply IH; auto. intros k. specialize (H k). cbn [lookup] in H.
        destruct (key_cmp k k1) eqn:E2; auto.
        apply key_cmp_eq in E2; subst.
        rewrite (lookup_below k1 k1 a Sa La (or_introl eq_refl)), (lookup_below k1 k1 b Sb Lb (or_introl eq_refl)). reflexivity.
      + exfalso. specialize (H k1). cbn [lookup] in H. rewrite key_cmp_refl, E in H.
        rewrite (lookup_below k2 k1 b Sb Lb (or_intror E)) in H. discriminate.
      + exfalso. apply key_cmp_gt_lt in E. specialize (H k2). cbn [lookup] in H. rewrite key_cmp_refl, E in H.
        rewrite (lookup_below k1 k2 a Sa La (or_intror E)) in H. discriminate.
  Qed.

  (* merge_maps / merge_join_by: key-wise union, values on both sides combined with f *)
  Variable f : V -> V -> V.

  Fixpoint smerge (a : smap) : smap -> smap :=
    match a with
    | [] => fun b => b
    | (k1, v1) :: a' =>
        fix inner (b : smap) : smap :=
          match b with
          | [] => (k1, v1) :: a'
          | (k2, v2) :: b' =>
              match key_cmp k1 k2 with
              | Lt => (k1, v1) :: smerge a' b
              | Eq => (k1, f v1 v2) :: smerge a' b'
              | Gt => (k2, v2) :: inner b'
              end
          end
    end.

  Lemma smerge_nil_r a : smerge a [] = a.
  Proof. destruct a as [|[k v] a]; reflexivity. Qed.

  Lemma smerge_cons k1 v1 a k2 v2 b :
    smerge ((k1, v1) :: a) ((k2, v2) :: b) =
    match key_cmp k1 k2 with
    | Lt => (k1, v1) :: smerge a ((k2, v2) :: b)
    | Eq => (k1, f v1 v2) :: smerge a b
    | Gt => (k2, v2) :: smerge ((k1, v1) :: a) b
    end.
  Proof. reflexivity. Qed.

  Definition omerge (x y : option V) : option V :=
    match x, y with
    | Some u, Some v => Some (f u v)
    | Some u, None => Some u
    | None, _ => y
    end.

  Lemma lookup_smerge k a b : sorted a -> sorted b -> lookup k (smerge a b) = omerge (lookup k a) (lookup k b).
  Proof.
    revert b; induction a as [|[k1 v1] a IHa]; intros b Sa Sb; [reflexivity|].
    induction b as [|[k2 v2] b IHb].
    - rewrite smerge_nil_r. cbn [lookup omerge]. destruct (match key_cmp k k1 with Eq => Some v1 | _ => lookup k a end); reflexivity.
    - rewrite smerge_cons. pose proof Sa as Sa0. pose proof Sb as Sb0.
      cbn [sorted] in Sa, Sb. destruct Sa as [La Sa], Sb as [Lb Sb].
      destruct (key_cmp k1 k2) eqn:E.
      + apply key_cmp_eq in E; subst k2. cbn [lookup]. destruct (key_cmp k k1); [reflexivity| |]; apply IHa; auto.
      + cbn [lookup]. destruct (key_cmp k k1) eqn:E2.
        * apply key_cmp_eq in E2; subst k.
          change (match key_cmp k1 k2 with Eq => Some v2 | _ => lookup k1 b end) with (lookup k1 ((k2, v2) :: b)).
          rewrite (lookup_below k1 k1 ((k2, v2) :: b) Sb0 E (or_introl eq_refl)). reflexivity.
        * rewrite (IHa ((k2, v2) :: b) Sa Sb0). reflexivity.
        * rewrite (IHa ((k2, v2) :: b) Sa Sb0). reflexivity.
      + apply key_cmp_gt_lt in E. cbn [lookup]. destruct (key_cmp k k2) eqn:E2.
        * apply key_cmp_eq in E2; subst k.
          change (match key_cmp k2 k1 with Eq => Some v1 | _ => lookup k2 a end) with (lookup k2 ((k1, v1) :: a)).
          rewrite (lookup_below k2 k2 ((k1, v1) :: a) Sa0 E (or_introl eq_refl)). reflexivity.
        * rewrite (IHb Sb). reflexivity.
        * rewrite (IHb Sb). reflexivity.
  Qed.

  Lemma lb_smerge k a b : lb k a -> lb k b -> lb k (smerge a b).
  Proof.
    destruct a as [|[k1 v1] a]; [auto|]. destruct b as [|[k2 v2] b]; [auto|].
    rewrite smerge_cons. cbn [lb]. destruct (key_cmp k1 k2); auto.
  Qed.

  Lemma sorted_smerge a b : sorted a -> sorted b -> sorted (smerge a b).
  Proof.
    revert b; induction a as [|[k1 v1] a IHa]; intros b Sa Sb; [exact Sb|].
    induction b as [|[k2 v2] b IHb]; [rewrite smerge_nil_r; exact Sa|].
    rewrite smerge_cons. pose proof Sa as Sa0. pose proof Sb as Sb0.
    cbn [sorted] in Sa, Sb. destruct Sa as [La Sa], Sb as [Lb Sb].
    destruct (key_cmp k1 k2) eqn:E; cbn [sorted]; split.
    - apply key_cmp_eq in E; subst. apply lb_smerge; auto.
    - apply IHa; auto.
    - apply lb_smerge; auto.
    - apply IHa; auto.
    - apply key_cmp_gt_lt in E. apply lb_smerge; auto.
    - apply IHb; auto.
  Qed.

  Lemma smerge_all (P : V -> Prop) a b :
    (forall k v, In (k, v) a -> P v) -> (forall k v, In (k, v) b -> P v) ->
    (forall k x y, In (k, x) a -> In (k, y) b -> P (f x y)) ->
    forall k v, In (k, v) (smerge a b) -> P v.
  Proof.
    revert b; induction a as [|[k1 v1] a IHa]; intros b Ha Hb Hf; [exact Hb|].
    induction b as [|[k2 v2] b IHb]; [rewrite smerge_nil_r; exact Ha|].
    rewrite smerge_cons. destruct (key_cmp k1 k2) eqn:E; intros k v [X|X].
    - injection X as <- <-. apply key_cmp_eq in E; subst k2. apply (Hf k1); left; reflexivity.
    - apply key_cmp_eq in E; subst k2. revert X. apply IHa.
      + intros; eapply Ha; right; eauto.
      + intros; eapply Hb; right; eauto.
      + intros; eapply Hf; right; eauto.
    - injection X as <- <-. eapply Ha; left; reflexivity.
    - revert X. apply IHa; auto.
      + intros; eapply Ha; right; eauto.
      + intros; eapply Hf; [right|]; eauto.
    - injection X as <- <-. eapply Hb; left; reflexivity.
    - revert X. apply IHb.
      + intros; eapply Hb; right; eauto.
      + intros; eapply Hf; [|right]; eauto.
  Qed.
End SMap.

Lemma smerge_assoc {V} (f : V -> V -> V) a b c :
  sorted a -> sorted b -> sorted c ->
  (forall k x y z, In (k, x) a -> In (k, y) b -> In (k, z) c -> f (f x y) z = f x (f y z)) ->
  smerge f (smerge f a b) c = smerge f a (smerge f b c).
Proof.
  intros Sa Sb Sc H. apply smap_ext; try (repeat apply sorted_smerge; assumption).
  intros k. rewrite !lookup_smerge; try (repeat apply sorted_smerge; assumption).
  destruct (lookup k a) as [x|] eqn:Ea, (lookup k b) as [y|] eqn:Eb, (lookup k c) as [z|] eqn:Ec; cbn [omerge]; try reflexivity.
  f_equal. apply (H k); apply lookup_in; assumption.
Qed.

Lemma smerge_comm {V} (f : V -> V -> V) a b :
  sorted a -> sorted b ->
  (forall k x y, In (k, x) a -> In (k, y) b -> f x y = f y x) ->
  smerge f a b = smerge f b a.
Proof.
  intros Sa Sb H. apply smap_ext; try (apply sorted_smerge; assumption).
  intros k. rewrite !lookup_smerge; try assumption.
  destruct (lookup k a) as [x|] eqn:Ea, (lookup k b) as [y|] eqn:Eb; cbn [omerge]; try reflexivity.
  f_equal. apply (H k); apply lookup_in; assumption.
Qed.

(* ------------------------------------------------------------------------------------------ *)
(* The tree of intermediate results. *)
Inductive trie (A : Type) : Type := Node (a : A) (ch : list (key * trie A)).
Arguments Node {A} a ch.

Definition payload {A} (t : trie A) : A := match t with Node a _ => a end.
Definition children {A} (t : trie A) : list (key * trie A) := match t with Node _ ch => ch end.

Section TrieInd.
  Context {A : Type} (P : trie A -> Prop).
  Hypothesis H : forall a ch, (forall k v, In (k, v) ch -> P v) -> P (Node a ch).
  Fixpoint trie_ind' (t : trie A) : P t :=
    match t with
    | Node a ch =>
        H a ch ((fix go (l : list (key * trie A)) : forall k v, In (k, v) l -> P v :=
                   match l with
                   | [] => fun k v (i : In (k, v) []) => match i with end
                   | (k0, v0) :: r => fun k v (i : In (k, v) ((k0, v0) :: r)) =>
                       match i with
                       | or_introl e => match e in (_ = p) return P (snd p) with eq_refl => trie_ind' v0 end
                       | or_intror i' => go r k v i'
                       end
                   end) ch)
    end.
End TrieInd.

Section Trie.
  Context {A : Type}.
  Variable aop : A -> A -> A.
  Variable a0 : A.
  Hypothesis aop_assoc : forall x y z, aop (aop x y) z = aop x (aop y z).
  Hypothesis aop_comm : forall x y, aop x y = aop y x.
  Hypothesis aop_0_l : forall x, aop a0 x = x.

  (* merge_fruits on every node type *)
  Fixpoint tmerge (x y : trie A) {struct x} : trie A :=
    match x, y with
    | Node a1 c1, Node a2 c2 => Node (aop a1 a2) (smerge tmerge c1 c2)
    end.

  Definition tempty : trie A := Node a0 [].

  (* canonical form: every child map strictly sorted *)
  Fixpoint twf (t : trie A) : Prop :=
    match t with
    | Node _ ch => sorted ch /\
        (fix all (l : list (key * trie A)) : Prop :=
           match l with [] => True | (_, v) :: r => twf v /\ all r end) ch
    end.

  Lemma twf_unfold a ch : twf (Node a ch) <-> sorted ch /\ forall k v, In (k, v) ch -> twf v.
  Proof.
    cbn [twf]. split; intros [S Hall]; split; auto.
    - induction ch as [|[k0 v0] r IH]; [intros ? ? []|].
      destruct Hall as [H0 Hr]. intros k v [E|Hin]; [injection E as <- <-; exact H0|].
      apply (IH (proj2 S) Hr k v Hin).
    - induction ch as [|[k0 v0] r IH]; [exact I|]. split.
      + apply (Hall k0); left; reflexivity.
      + apply IH; [exact (proj2 S)|]. intros k v Hin. apply (Hall k); right; exact Hin.
  Qed.

  Lemma twf_tempty : twf tempty.
  Proof. cbn. auto. Qed.

  Lemma twf_tmerge x : forall y, twf x -> twf y -> twf (tmerge x y).
  Proof.
    induction x as [a1 c1 IH] using trie_ind'. intros [a2 c2] Hx Hy.
    apply twf_unfold in Hx, Hy. destruct Hx as [S1 W1], Hy as [S2 W2].
    cbn [tmerge]. apply twf_unfold. split; [apply sorted_smerge; assumption|].
    apply smerge_all with (P := twf).
    - exact W1.
    - exact W2.
    - intros k x y Hx Hy. apply (IH k x Hx); eauto.
  Qed.

  Lemma tmerge_assoc x : forall y z, twf x -> twf y -> twf z ->
    tmerge (tmerge x y) z = tmerge x (tmerge y z).
  Proof.
    induction x as [a1 c1 IH] using trie_ind'. intros [a2 c2] [a3 c3] Hx Hy Hz.
    apply twf_unfold in Hx, Hy, Hz. destruct Hx as [S1 W1], Hy as [S2 W2], Hz as [S3 W3].
    cbn [tmerge]. f_equal; [apply aop_assoc|].
    apply smerge_assoc; auto.
    intros k x y z Hx Hy Hz. apply (IH k x Hx); eauto.
  Qed.

  Lemma tmerge_comm x : forall y, twf x -> twf y -> tmerge x y = tmerge y x.
  Proof.
    induction x as [a1 c1 IH] using trie_ind'. intros [a2 c2] Hx Hy.
    apply twf_unfold in Hx, Hy. destruct Hx as [S1 W1], Hy as [S2 W2].
    cbn [tmerge]. f_equal; [apply aop_comm|].
    apply smerge_comm; auto.
    intros k x y Hx Hy. apply (IH k x Hx); eauto.
  Qed.

  Lemma tmerge_empty_l y : tmerge tempty y = y.
  Proof. destruct y as [a c]. cbn [tmerge tempty smerge]. rewrite aop_0_l. reflexivity. Qed.

  Lemma tmerge_empty_r x : tmerge x tempty = x.
  Proof. destruct x as [a c]. cbn [tmerge tempty]. rewrite smerge_nil_r, aop_comm, aop_0_l. reflexivity. Qed.
End Trie.

(* ------------------------------------------------------------------------------------------ *)
(* Folding a commutative monoid (laws required only on an invariant that the operation preserves)
   along ANY binary tree shape over ANY permutation of the leaves gives the same value. *)
Section CMonoid.
  Context {T : Type}.
  Variables (op : T -> T -> T) (e : T) (inv : T -> Prop).
  Hypothesis inv_e : inv e.
  Hypothesis inv_op : forall a b, inv a -> inv b -> inv (op a b).
  Hypothesis op_assoc : forall a b c, inv a -> inv b -> inv c -> op (op a b) c = op a (op b c).
  Hypothesis op_comm : forall a b, inv a -> inv b -> op a b = op b a.
  Hypothesis op_e_l : forall a, op e a = a.
  Hypothesis op_e_r : forall a, op a e = a.

  Inductive shape : Type := Leaf (x : T) | Hole | Bin (l r : shape).

  Fixpoint leaves (s : shape) : list T :=
    match s with Leaf x => [x] | Hole => [] | Bin l r => leaves l ++ leaves r end.

  Fixpoint eval (s : shape) : T :=
    match s with Leaf x => x | Hole => e | Bin l r => op (eval l) (eval r) end.

  Definition fold_list (l : list T) : T := fold_right op e l.

  Lemma inv_fold_list l : Forall inv l -> inv (fold_list l).
  Proof. induction 1; cbn [fold_list fold_right]; auto. Qed.

  Lemma fold_list_app a b : Forall inv a -> Forall inv b ->
    fold_list (a ++ b) = op (fold_list a) (fold_list b).
  Proof.
    intros Ha Hb. induction Ha as [|x a Hx Ha IH]; cbn [app fold_list fold_right].
    - rewrite op_e_l. reflexivity.
    - fold (fold_list (a ++ b)). rewrite IH. fold (fold_list a).
      rewrite op_assoc; auto using inv_fold_list.
  Qed.

  Lemma eval_fold s : Forall inv (leaves s) -> eval s = fold_list (leaves s).
  Proof.
    induction s as [x| |l IHl r IHr]; cbn [leaves eval]; intros H.
    - cbn. rewrite op_e_r. reflexivity.
    - reflexivity.
    - apply Forall_app in H. destruct H as [Hl Hr].
      rewrite fold_list_app, IHl, IHr; auto.
  Qed.

  Lemma fold_list_perm l1 l2 : Permutation l1 l2 -> Forall inv l1 -> fold_list l1 = fold_list l2.
  Proof.
    induction 1 as [|x l1 l2 HP IH|x y l|l1 l2 l3 HP1 IH1 HP2 IH2]; intros Hinv.
    - reflexivity.
    - cbn [fold_list fold_right]. inversion Hinv; subst. f_equal. apply IH; assumption.
    - cbn [fold_list fold_right]. inversion Hinv as [|? ? Hy H1]; subst. inversion H1 as [|? ? Hx Hl]; subst.
      fold (fold_list l). pose proof (inv_fold_list l Hl).
      rewrite <- !op_assoc; auto. f_equal. apply op_comm; auto.
    - rewrite IH1; auto. apply IH2. eapply Permutation_Forall; eauto.
  Qed.

  Theorem eval_perm s1 s2 :
    Permutation (leaves s1) (leaves s2) -> Forall inv (leaves s1) -> eval s1 = eval s2.
  Proof.
    intros HP Hinv. rewrite !eval_fold; auto.
    - apply fold_list_perm; auto.
    - eapply Permutation_Forall; eauto.
  Qed.

  (* the left fold used by `merge_fruits(segment_fruits)` in collector.rs *)
  Lemma fold_left_fold_list l : Forall inv l -> fold_left op l e = fold_list l.
  Proof.
    intros H. assert (G : forall acc, inv acc -> fold_left op l acc = op acc (fold_list l)).
    { induction H as [|x l Hx Hl IH]; intros acc Ha; cbn [fold_left fold_list fold_right].
      - rewrite op_e_r; reflexivity.
      - rewrite IH; auto. fold (fold_list l). apply op_assoc; auto using inv_fold_list. }
    rewrite G; auto.
  Qed.
End CMonoid.
