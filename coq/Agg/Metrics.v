(* C14 -- metric accumulators.

   src/aggregation/metric/stats.rs: IntermediateStats { count, sum, delta, min, max } with
     collect(v): count += 1; sum += v (Kahan); min = min.min(v); max = max.max(v)
     merge_fruits(o): count += o.count; sum += o.sum (Kahan); min = min.min(o.min); max = max.max(o.max)
     finalize(): min/max/avg = None when count == 0, avg = sum / count
   metric/{count,sum,min,max,average}.rs wrap IntermediateStats (`from_stats`) and project one
   component in `finalize` (count -> Some(count), sum -> None if count = 0 [turned into 0 by
   into_final_metric_result], min/max/avg -> None if count = 0).
   Values are integers here (exact sums; the Kahan compensation term is then 0).  `f64::MAX/MIN`
   as the neutral elements of min/max are `None`.

   The same record is the accumulator of every node of the intermediate tree:
     metric node            : a_cnt = number of values, a_sum, a_min, a_max
     bucket entry           : a_cnt = doc_count
     terms aggregation node : a_other = sum_other_doc_count, a_err = doc_count_error_upper_bound
   unused components stay neutral. *)
From TV Require Import Base.Prelude.
From Coq Require Import QArith.
Local Close Scope Q_scope.

Record acc := mkAcc { a_cnt : N; a_sum : Z; a_min : option Z; a_max : option Z; a_other : N; a_err : N }.

Definition acc0 : acc := mkAcc 0 0 None None 0 0.

Definition omin (x y : option Z) : option Z :=
  match x, y with Some a, Some b => Some (Z.min a b) | Some a, None => Some a | None, _ => y end.
Definition omax (x y : option Z) : option Z :=
  match x, y with Some a, Some b => Some (Z.max a b) | Some a, None => Some a | None, _ => y end.

(* IntermediateStats::merge_fruits, and `+=` on doc_count / sum_other_doc_count / doc_count_error_upper_bound *)
Definition acc_merge (x y : acc) : acc :=
  mkAcc (a_cnt x + a_cnt y) (a_sum x + a_sum y) (omin (a_min x) (a_min y)) (omax (a_max x) (a_max y))
        (a_other x + a_other y) (a_err x + a_err y).

(* IntermediateStats::collect *)
Definition acc_val (v : Z) : acc := mkAcc 1 v (Some v) (Some v) 0 0.
Definition acc_collect (a : acc) (v : Z) : acc := acc_merge a (acc_val v).
Definition acc_of_vals (vs : list Z) : acc := fold_left acc_collect vs acc0.
(* bucket entry: doc_count *)
Definition acc_cnt (n : N) : acc := mkAcc n 0 None None 0 0.

Lemma omin_assoc x y z : omin (omin x y) z = omin x (omin y z).
Proof. destruct x, y, z; cbn [omin]; try reflexivity. f_equal. lia. Qed.
Lemma omax_assoc x y z : omax (omax x y) z = omax x (omax y z).
Proof. destruct x, y, z; cbn [omax]; try reflexivity. f_equal. lia. Qed.
Lemma omin_comm x y : omin x y = omin y x.
Proof. destruct x, y; cbn [omin]; try reflexivity. f_equal. lia. Qed.
Lemma omax_comm x y : omax x y = omax y x.
Proof. destruct x, y; cbn [omax]; try reflexivity. f_equal. lia. Qed.

Lemma acc_merge_assoc x y z : acc_merge (acc_merge x y) z = acc_merge x (acc_merge y z).
Proof.
  unfold acc_merge; cbn [a_cnt a_sum a_min a_max a_other a_err].
  rewrite omin_assoc, omax_assoc. f_equal; lia.
Qed.
Lemma acc_merge_comm x y : acc_merge x y = acc_merge y x.
Proof.
  unfold acc_merge. rewrite (omin_comm (a_min x)), (omax_comm (a_max x)). f_equal; lia.
Qed.
Lemma acc_merge_0_l x : acc_merge acc0 x = x.
Proof. destruct x. unfold acc_merge, acc0; cbn [a_cnt a_sum a_min a_max a_other a_err omin omax]. f_equal; lia. Qed.
Lemma acc_merge_0_r x : acc_merge x acc0 = x.
Proof. rewrite acc_merge_comm. apply acc_merge_0_l. Qed.

(* textbook statistics of a list of values *)
Definition list_sum (vs : list Z) : Z := fold_right Z.add 0%Z vs.
Definition list_min (vs : list Z) : option Z := fold_right (fun v m => omin (Some v) m) None vs.
Definition list_max (vs : list Z) : option Z := fold_right (fun v m => omax (Some v) m) None vs.
Definition acc_spec (vs : list Z) : acc :=
  mkAcc (N.of_nat (length vs)) (list_sum vs) (list_min vs) (list_max vs) 0 0.

Lemma acc_spec_cons v vs : acc_spec (v :: vs) = acc_merge (acc_val v) (acc_spec vs).
Proof.
  unfold acc_spec, acc_merge, acc_val; cbn [length list_sum list_min list_max fold_right a_cnt a_sum a_min a_max a_other a_err].
  f_equal; lia.
Qed.

Lemma acc_of_vals_merge vs : forall a, fold_left acc_collect vs a = acc_merge a (acc_spec vs).
Proof.
  induction vs as [|v vs IH]; intros a; cbn [fold_left].
  - change (acc_spec []) with acc0. rewrite acc_merge_0_r. reflexivity.
  - rewrite IH, acc_spec_cons. unfold acc_collect. apply acc_merge_assoc.
Qed.

(* the incremental accumulator computes exactly count / sum / min / max of the values *)
Lemma acc_of_vals_spec vs : acc_of_vals vs = acc_spec vs.
Proof. unfold acc_of_vals. rewrite acc_of_vals_merge. apply acc_merge_0_l. Qed.

Lemma acc_spec_app a b : acc_spec (a ++ b) = acc_merge (acc_spec a) (acc_spec b).
Proof.
  induction a as [|v a IH]; cbn [app].
  - change (acc_spec []) with acc0. rewrite acc_merge_0_l. reflexivity.
  - rewrite !acc_spec_cons, IH, acc_merge_assoc. reflexivity.
Qed.

Lemma list_min_spec vs m : list_min vs = Some m <-> In m vs /\ forall v, In v vs -> (m <= v)%Z.
Proof.
  revert m; induction vs as [|x vs IH]; intros m; cbn [list_min fold_right In].
  - split; [discriminate|tauto].
  - fold (list_min vs). destruct (list_min vs) as [m'|] eqn:E; cbn [omin].
    + destruct (IH m') as [IH1 _]. destruct (IH1 eq_refl) as [Hin Hle]. split.
      * intros H; injection H as <-. split.
        -- destruct (Z.min_spec x m') as [[_ ->]|[_ ->]]; auto.
        -- intros v [<-|Hv]; [lia|]. specialize (Hle v Hv). lia.
      * intros [[<-|Hm] Hall]; f_equal.
        -- specialize (Hall m' (or_intror Hin)). lia.
        -- specialize (Hle m Hm). pose proof (Hall m' (or_intror Hin)). specialize (Hall x (or_introl eq_refl)). lia.
    + assert (vs = []) as ->.
      { destruct vs as [|y vs]; [reflexivity|]. cbn [list_min fold_right] in E. destruct (fold_right _ None vs); discriminate. }
      split.
      * intros H; injection H as <-. split; [auto|]. intros v [<-|[]]; lia.
      * intros [[<-|[]] _]; reflexivity.
Qed.

Lemma list_max_spec vs m : list_max vs = Some m <-> In m vs /\ forall v, In v vs -> (v <= m)%Z.
Proof.
  revert m; induction vs as [|x vs IH]; intros m; cbn [list_max fold_right In].
  - split; [discriminate|tauto].
  - fold (list_max vs). destruct (list_max vs) as [m'|] eqn:E; cbn [omax].
    + destruct (IH m') as [IH1 _]. destruct (IH1 eq_refl) as [Hin Hle]. split.
      * intros H; injection H as <-. split.
        -- destruct (Z.max_spec x m') as [[_ ->]|[_ ->]]; auto.
        -- intros v [<-|Hv]; [lia|]. specialize (Hle v Hv). lia.
      * intros [[<-|Hm] Hall]; f_equal.
        -- specialize (Hall m' (or_intror Hin)). lia.
        -- specialize (Hle m Hm). pose proof (Hall m' (or_intror Hin)). specialize (Hall x (or_introl eq_refl)). lia.
    + assert (vs = []) as ->.
      { destruct vs as [|y vs]; [reflexivity|]. cbn [list_max fold_right] in E. destruct (fold_right _ None vs); discriminate. }
      split.
      * intros H; injection H as <-. split; [auto|]. intros v [<-|[]]; lia.
      * intros [[<-|[]] _]; reflexivity.
Qed.

(* ---- final values (metric/*.rs `finalize`, IntermediateMetricResult::into_final_metric_result) ---- *)
Inductive mkind := MCount | MSum | MMin | MMax | MAvg | MStats.

Definition zq (z : Z) : Q := inject_Z z.
Definition avg_of (a : acc) : option Q :=
  if N.eqb (a_cnt a) 0 then None else Some (Qred (Qmake (a_sum a) (N.succ_pos (N.pred (a_cnt a))))).

(* rendered values; stats: [count; min; max; sum; avg] *)
Definition fin_metric (k : mkind) (a : acc) : list (option Q) :=
  match k with
  | MCount => [Some (zq (Z.of_N (a_cnt a)))]
  | MSum => [Some (zq (a_sum a))]                      (* empty sum is rendered 0 (ES behaviour) *)
  | MMin => [option_map zq (a_min a)]
  | MMax => [option_map zq (a_max a)]
  | MAvg => [avg_of a]
  | MStats => [Some (zq (Z.of_N (a_cnt a))); option_map zq (a_min a); option_map zq (a_max a); Some (zq (a_sum a)); avg_of a]
  end.
