(* C14 -- classifiers of known findings outside the modelled request language (dynamic JSON columns,
   cardinality, composite).  The harness decides these scenarios against oracles computed on the
   implementation side (documented formula / group-by of the corpus) and against each other
   (1 segment / several segments / distributed merge orders); when the implementation fails, the
   failing input is classified here.

   F142  agg_data.rs / accessor_helpers.rs::get_ff_reader: a column that is absent in a segment (dynamic
         JSON path no document of the segment carries) is replaced by an empty column typed U64; a
         metric `missing` value and range bounds are converted with `f64 as u64`: negative values become
         0, fractions are truncated -> the result depends on which segments carry the column.
         Same conversion on a present integer column (`val as i64`): a fractional `missing` is truncated
         (2.5 counts as 2), and for JSON paths the column type itself varies per segment.
   F143  cardinality with a string `missing` on such a segment: the documents of that segment are not
         counted.
   F144  bucket/composite/collector.rs: date_histogram source with fixed_interval computes
         (value_ns / interval_ns) * interval_ns with truncating division: instants before 1970 that are
         not on a bucket boundary land in the bucket above.
   F145  intermediate_agg_result.rs::empty_from_req builds the empty composite result with
         target_size 0; terms with min_doc_count 0 puts it below every zero-count term; when such an
         entry is the LEFT operand of merge_fruits, `entries.len() > 2 * target_size` trims every
         bucket away: the composite buckets of that term depend on the merge order.
   F146  metric/top_hits.rs::prepare_max_bucket resizes the per-bucket collectors to max_bucket + 1 with
         Vec::resize, which SHRINKS when a later flush of the buffered sub-aggregations (every
         FLUSH_THRESHOLD documents of a segment, buffered_sub_aggs.rs) only touches lower bucket ids:
         the hits collected for the higher buckets are dropped, so a large segment loses hits that the
         same documents spread over small segments keep. *)
From TV Require Import Base.Prelude Agg.Intermediate.
From Coq Require Import QArith.
Local Close Scope Q_scope.

Definition q_is_nonneg_int (q : Q) : bool :=
  Qle_bool 0 q && Pos.eqb (Qden (Qred q)) 1.

Definition q_is_int (q : Q) : bool := Pos.eqb (Qden (Qred q)) 1.

(* a partition described by "does the document carry the path": some non-empty part where no document does *)
Definition some_part_without_column (parts : list (list bool)) : bool :=
  existsb (fun p => negb (match p with [] => true | _ => false end) && negb (existsb (fun b => b) p)) parts.

Inductive xreq := XMetricMissing (m : Q) | XRange (cuts : list Q).

Definition f142 (r : xreq) (parts : list (list bool)) : bool :=
  match r with
  | XMetricMissing m => negb (q_is_int m) || (some_part_without_column parts && negb (q_is_nonneg_int m))
  | XRange cuts => existsb (fun c => negb (q_is_int c)) cuts
                   || (some_part_without_column parts && existsb (fun c => Qle_bool c 0) cuts)   (* bound 0 = u64::MIN reads as an open end *)
  end.

Definition f143 (parts : list (list bool)) : bool := some_part_without_column parts.

(* instants in milliseconds *)
Definition f144 (interval_ms : Z) (instants_ms : list Z) : bool :=
  existsb (fun t => Z.ltb t 0 && negb (Z.eqb (t mod interval_ms) 0)) instants_ms.

(* a part = its documents as (terms of the document, does it match the query) *)
Definition term_in (t : key) (d : list key * bool) : bool := existsb (key_eqb t) (fst d).
Definition zero_count_term (t : key) (p : list (list key * bool)) : bool :=
  existsb (term_in t) p && negb (existsb (fun d => snd d && term_in t d) p).
Definition matched_term (t : key) (p : list (list key * bool)) : bool :=
  existsb (fun d => snd d && term_in t d) p.
Definition f145 (parts : list (list (list key * bool))) : bool :=
  existsb (fun p => existsb (fun d => existsb (fun t => zero_count_term t p && existsb (matched_term t) parts) (fst d)) p) parts.

(* truncating vs floor division: the bucket the code computes vs the documented one *)
Definition trunc_bucket (interval t : Z) : Z := Z.quot t interval * interval.
Definition floor_bucket (interval t : Z) : Z := Z.div t interval * interval.

Lemma trunc_bucket_wrong_iff interval t : (0 < interval)%Z ->
  trunc_bucket interval t <> floor_bucket interval t <-> (t < 0 /\ t mod interval <> 0)%Z.
Proof.
  intros Hi. unfold trunc_bucket, floor_bucket.
  destruct (Z_lt_le_dec t 0) as [Hneg|Hpos].
  - destruct (Z.eq_dec (t mod interval) 0) as [E|E].
    + split; [|tauto]. intros H. exfalso. apply H. f_equal.
      apply Z.mod_divide in E; [|lia]. destruct E as [k ->].
      rewrite Z.quot_mul, Z.div_mul by lia. reflexivity.
    + split; [tauto|]. intros _ H.
      assert (Hq : Z.quot t interval = Z.div t interval) by nia.
      pose proof (Z.quot_rem' t interval) as Hqr. pose proof (Z.div_mod t interval ltac:(lia)) as Hdm.
      pose proof (Z.rem_nonpos t interval ltac:(lia) ltac:(lia)) as Hr.
      pose proof (Z.mod_pos_bound t interval Hi) as Hm.
      rewrite Hq in Hqr. lia.
  - split; [|lia]. intros H. exfalso. apply H. f_equal. apply Z.quot_div_nonneg; lia.
Qed.

(* F146: per segment, the bucket ids (numbered by first appearance) of the documents in collection order;
   some flush chunk has a smaller maximal bucket id than an earlier one *)
Fixpoint chunks_max (fuel : nat) (threshold : nat) (l : list N) : list N :=
  match fuel with
  | O => []
  | S fuel' =>
      match l with
      | [] => []
      | _ => fold_right N.max 0%N (firstn threshold l) :: chunks_max fuel' threshold (skipn threshold l)
      end
  end.
Fixpoint shrinks (run_max : N) (l : list N) : bool :=
  match l with
  | [] => false
  | m :: r => N.ltb m run_max || shrinks (N.max run_max m) r
  end.
Definition f146 (threshold : N) (segments : list (list N)) : bool :=
  negb (N.eqb threshold 0) &&
  existsb (fun seg => shrinks 0%N (chunks_max (S (length seg)) (N.to_nat threshold) seg)) segments.
