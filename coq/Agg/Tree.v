(* C14 -- request trees, per-segment collection, merge, finalisation, and the direct (textbook)
   evaluation.

   agg_req.rs      Aggregations = name -> Aggregation { agg: AggregationVariants, sub_aggregation }
   segment_agg_result.rs / bucket/*.rs / metric/*.rs   segment collectors   -> cdoc / collect_seg
   intermediate_agg_result.rs   merge_fruits                                 -> imerge
                                into_final_result(_internal)                 -> fin / fin_top (+ present)
   Names of (sub-)aggregations are positions in the request list. *)
From TV Require Import Base.Prelude Agg.Intermediate Agg.Metrics Agg.Buckets.
From Coq Require Import QArith Qabs Permutation.
Local Close Scope Q_scope.

Inductive req :=
| RMetric (k : mkind) (f : fld) (missing : option Z)
| RBucket (bk : bkind) (subs : list req).

Section ReqInd.
  Variable P : req -> Prop.
  Hypothesis Hm : forall k f m, P (RMetric k f m).
  Hypothesis Hb : forall bk subs, (forall s, In s subs -> P s) -> P (RBucket bk subs).
  Fixpoint req_ind' (r : req) : P r :=
    match r with
    | RMetric k f m => Hm k f m
    | RBucket bk subs =>
        Hb bk subs ((fix go (l : list req) : forall s, In s l -> P s :=
                       match l with
                       | [] => fun s (i : In s []) => match i with end
                       | x :: l' => fun s (i : In s (x :: l')) =>
                           match i with
                           | or_introl e => match e in (_ = y) return P y with eq_refl => req_ind' x end
                           | or_intror i' => go l' s i'
                           end
                       end) subs)
    end.
End ReqInd.

Notation itree := (trie acc).
Definition imerge : itree -> itree -> itree := tmerge acc_merge.
Definition iempty : itree := tempty acc0.
Definition iwf : itree -> Prop := twf.

Definition mapi_from {A B} (f : nat -> A -> B) : nat -> list A -> list B :=
  fix go (i : nat) (l : list A) : list B :=
    match l with [] => [] | x :: r => f i x :: go (S i) r end.
Definition mapi {A B} (f : nat -> A -> B) (l : list A) : list B := mapi_from f 0 l.

(* IntermediateAggregationResults: name -> result, names = positions *)
Definition ikey (i : nat) : key := KZ (Z.of_nat i).
Definition sub_children (l : list itree) : list (key * itree) := mapi (fun i t => (ikey i, t)) l.
Definition child (i : nat) (e : itree) : itree :=
  match lookup (ikey i) (children e) with Some t => t | None => iempty end.

(* a bucket entry { doc_count, sub_aggregation } *)
Definition entry_node (n : N) (subs : list itree) : itree := Node (acc_cnt n) (sub_children subs).

(* a bucket map built from (key, entry) contributions, one per (document, value) *)
Definition group (kes : list (key * itree)) : list (key * itree) :=
  fold_right (fun ke m => smerge imerge [ke] m) [] kes.

Inductive result :=
| RM (vals : list (option Q))
| RB (bs : list (key * N * list result)) (other err : N).

Section Pos.
  Variable hist_pos : hparams -> Q -> Z.
  Notation cls := (cls hist_pos).
  Notation shown := (shown hist_pos).
  Notation docs_of := (docs_of hist_pos).

  (* what one document adds to the segment collector of request r *)
  Fixpoint cdoc (r : req) (d : doc) : itree :=
    match r with
    | RMetric k f miss => Node (acc_of_vals (mvals f miss d)) []
    | RBucket bk subs =>
        let e := entry_node 1 (map (fun s => cdoc s d) subs) in
        Node acc0 (group (map (fun k => (k, e)) (cls bk d)))
    end.

  (* the whole request (top level of the tree) *)
  Definition cdocs (rs : list req) (d : doc) : itree := Node acc0 (sub_children (map (fun r => cdoc r d) rs)).

  (* AggregationSegmentCollector: collect every matching document of the segment, then harvest *)
  Definition collect_seg (rs : list req) (docs : list doc) : itree :=
    fold_left (fun t d => imerge t (cdocs rs d)) docs iempty.

  (* collection for one aggregation of the request *)
  Definition coll (r : req) (docs : list doc) : itree :=
    fold_right imerge iempty (map (cdoc r) docs).

  (* empty_from_req(..).into_final_result: the result used for gap buckets / no segment at all *)
  Fixpoint empty_result (r : req) : result :=
    match r with
    | RMetric k f miss => RM (fin_metric k acc0)
    | RBucket bk subs =>
        match bk with
        | BRange _ _ => RB [] 0 0      (* the empty range result has no buckets at all *)
        | _ => RB (map (fun kb : key * bool => (fst kb, 0%N, map empty_result subs)) (shown bk [])) 0 0
        end
    end.

  (* into_final_result_internal without the ordering / size cut of terms (see `present`) *)
  Fixpoint fin (r : req) (t : itree) : result :=
    match r with
    | RMetric k f miss => RM (fin_metric k (payload t))
    | RBucket bk subs =>
        let ch := children t in
        RB (map (fun kb : key * bool =>
                   if snd kb then
                     let e := match lookup (fst kb) ch with Some e => e | None => iempty end in
                     (fst kb, a_cnt (payload e), mapi (fun i s => fin s (child i e)) subs)
                   else (fst kb, 0%N, map empty_result subs))
                (shown bk (map (fun ke => (fst ke, a_cnt (payload (snd ke)))) ch)))
           (a_other (payload t)) (a_err (payload t))
    end.

  Definition fin_top (rs : list req) (t : itree) : list result := mapi (fun i r => fin r (child i t)) rs.

  (* the textbook evaluation: group the documents by bucket, count, recurse on the group *)
  Fixpoint direct (r : req) (docs : list doc) : result :=
    match r with
    | RMetric k f miss => RM (fin_metric k (acc_spec (flat_map (mvals f miss) docs)))
    | RBucket bk subs =>
        RB (map (fun kb : key * bool =>
                   if snd kb then
                     let dk := docs_of bk (fst kb) docs in
                     (fst kb, N.of_nat (length dk), map (fun s => direct s dk) subs)
                   else (fst kb, 0%N, map empty_result subs))
                (shown bk (key_counts (flat_map (cls bk) docs))))
           0 0
    end.

  Definition direct_top (rs : list req) (docs : list doc) : list result := map (fun r => direct r docs) rs.

  (* Known class F141: a range / histogram bucket with sub-aggregations receives a document that
     has two or more values in the same bucket.  The segment collectors then hand the same doc id
     twice to the sub-aggregation collectors, whose block accessors assume duplicate-free doc
     lists (columnar/src/block_accessor.rs: is_contiguous, dedup_docid_val_pairs): what the
     sub-aggregation sees then depends on the column cardinality and doc-id layout of the segment. *)
  Definition has_dup (l : list key) : bool := negb (Nat.eqb (length (kdedup l)) (length l)).
  Definition per_value (bk : bkind) : bool := match bk with BRange _ _ | BHisto _ _ => true | _ => false end.
  Fixpoint f141 (r : req) (docs : list doc) : bool :=
    match r with
    | RMetric _ _ _ => false
    | RBucket bk subs =>
        (per_value bk && negb (match subs with [] => true | _ => false end) && existsb (fun d => has_dup (cls bk d)) docs)
        || existsb (fun kn : key * N => existsb (fun s => f141 s (docs_of bk (fst kn) docs)) subs)
                   (key_counts (flat_map (cls bk) docs))
    end.
  Definition f141_top (rs : list req) (docs : list doc) : bool := existsb (fun r => f141 r docs) rs.
End Pos.

(* ------------------------------------------------------------------------------------------ *)
(* Ordering and size cut of terms buckets (IntermediateTermBucketResult::into_final_result):
   sort by the order target, keep `size`, add the doc counts of the rest to sum_other_doc_count.
   The code sorts with an unstable sort; the model breaks ties by ascending key. *)
Definition bucket := (key * N * list result)%type.
Definition b_key (b : bucket) : key := fst (fst b).
Definition b_cnt (b : bucket) : N := snd (fst b).
Definition b_subs (b : bucket) : list result := snd b.

Definition sub_value (i j : nat) (b : bucket) : option Q :=
  match nth_error (b_subs b) i with
  | Some (RM vs) => match nth_error vs j with Some v => v | None => None end
  | _ => None
  end.

(* None = f64::MIN *)
Definition oq_le (x y : option Q) : bool :=
  match x, y with
  | None, _ => true
  | Some _, None => false
  | Some a, Some b => Qle_bool a b
  end.

Definition ord_le (o : tord) (a b : bucket) : bool :=
  match o with
  | TCount true => N.leb (b_cnt b) (b_cnt a)
  | TCount false => N.leb (b_cnt a) (b_cnt b)
  | TKey false => true           (* input is sorted by key *)
  | TKey true => true            (* handled by reversal *)
  | TSub i j true => oq_le (sub_value i j b) (sub_value i j a)
  | TSub i j false => oq_le (sub_value i j a) (sub_value i j b)
  end.

Fixpoint insert_by {A} (le : A -> A -> bool) (x : A) (l : list A) : list A :=
  match l with
  | [] => [x]
  | y :: r => if le x y then x :: l else y :: insert_by le x r
  end.
Definition sort_by {A} (le : A -> A -> bool) (l : list A) : list A := fold_right (insert_by le) [] l.

Definition order_buckets (o : tord) (bs : list bucket) : list bucket :=
  match o with
  | TKey true => rev bs
  | TKey false => bs
  | _ => sort_by (ord_le o) bs
  end.

Definition sum_cnt (bs : list bucket) : N := fold_right (fun b s => (b_cnt b + s)%N) 0%N bs.

Fixpoint present (r : req) (u : result) : result :=
  match r, u with
  | RBucket bk subs, RB bs other err =>
      let bs' := map (fun b : bucket =>
                        (b_key b, b_cnt b,
                         (fix go (ss : list req) (us : list result) : list result :=
                            match ss, us with
                            | s :: ss', x :: us' => present s x :: go ss' us'
                            | _, _ => []
                            end) subs (b_subs b))) bs in
      match bk with
      | BTerms f tp =>
          let o := order_buckets (t_order tp) bs' in
          let n := N.to_nat (t_size tp) in
          RB (firstn n o) (other + sum_cnt (skipn n o)) err
      | _ => RB bs' other err
      end
  | _, _ => u
  end.

Definition present_top (rs : list req) (us : list result) : list result :=
  (fix go (ss : list req) (us : list result) : list result :=
     match ss, us with
     | s :: ss', x :: us' => present s x :: go ss' us'
     | _, _ => []
     end) rs us.

(* AggregationCollector: merge the segment fruits, then into_final_result *)
Definition finalize (hist_pos : hparams -> Q -> Z) (rs : list req) (t : itree) : list result :=
  present_top rs (fin_top hist_pos rs t).
Definition direct_final (hist_pos : hparams -> Q -> Z) (rs : list req) (docs : list doc) : list result :=
  present_top rs (direct_top hist_pos rs docs).

(* ------------------------------------------------------------------------------------------ *)
(* Observations of the implementation (the JSON result, numbers as exact rationals) and the relation
   "this observation is a correct rendering of the (uncut) result u of request r":
   exact on keys, doc counts, count/sum/min/max; avg within 2^-40 relative (one f64 division);
   terms: any order among equal sort values is accepted (the code uses an unstable sort), the cut
   must keep a correct top-`size` selection, sum_other_doc_count must account for the rest. *)
Inductive okey := OKQ (q : Q) | OKS (s : list N) | OKR (from to : option Q).
Inductive obs :=
| OM (vals : list (option Q))
| OB (bs : list (okey * N * list obs)) (other err : option N).

Definition oq_eq (x y : option Q) : bool :=
  match x, y with
  | None, None => true
  | Some a, Some b => Qeq_bool a b
  | _, _ => false
  end.
Definition oq_close (x y : option Q) : bool :=
  match x, y with
  | None, None => true
  | Some a, Some b => Qle_bool (Qabs (a - b) * (1099511627776 # 1))%Q (Qabs a)
  | _, _ => false
  end.

Fixpoint all2 {A B} (p : A -> B -> bool) (a : list A) (b : list B) : bool :=
  match a, b with
  | [], [] => true
  | x :: a', y :: b' => p x y && all2 p a' b'
  | _, _ => false
  end.

Definition match_vals (k : mkind) (vs ovs : list (option Q)) : bool :=
  match k, vs, ovs with
  | MAvg, [a], [b] => oq_close a b
  | MStats, [c; mn; mx; s; a], [c'; mn'; mx'; s'; a'] => oq_eq c c' && oq_eq mn mn' && oq_eq mx mx' && oq_eq s s' && oq_close a a'
  | MAvg, _, _ => false
  | MStats, _, _ => false
  | _, _, _ => all2 oq_eq vs ovs
  end.

Definition okey_ok (bk : bkind) (k : key) (ok : okey) : bool :=
  match bk, k, ok with
  | BRange f cuts, KZ i, OKR from to =>
      let n := Z.of_nat (length cuts) in
      oq_eq (if Z.eqb i 0 then None else Some (inject_Z (nth (Z.to_nat (i - 1)) cuts 0%Z))) from &&
      oq_eq (if Z.eqb i n then None else Some (inject_Z (nth (Z.to_nat i) cuts 0%Z))) to
  | BHisto f hp, KZ p, OKQ q => Qeq_bool (key_of_pos hp p) q
  | BTerms f tp, KZ z, OKQ q => Qeq_bool (inject_Z z) q
  | BTerms f tp, KS s, OKS s' => list_eqb N.eqb s s'
  | BFilter p, KZ _, OKQ _ => true
  | _, _, _ => false
  end.

Definition obucket := (okey * N * list obs)%type.

Definition okey_eqb (a b : okey) : bool :=
  match a, b with
  | OKQ x, OKQ y => Qeq_bool x y
  | OKS x, OKS y => list_eqb N.eqb x y
  | OKR f t, OKR f' t' => oq_eq f f' && oq_eq t t'
  | _, _ => false
  end.

Fixpoint okeys_distinct (l : list okey) : bool :=
  match l with
  | [] => true
  | x :: r => negb (existsb (okey_eqb x) r) && okeys_distinct r
  end.

Definition osub_value (i j : nat) (ob : obucket) : option Q :=
  match nth_error (snd ob) i with
  | Some (OM vs) => match nth_error vs j with Some v => v | None => None end
  | _ => None
  end.

(* the order target of a model bucket and of an observed bucket must agree position by position *)
Definition ordval_ok (o : tord) (b : bucket) (ob : obucket) : bool :=
  match o with
  | TCount _ => N.eqb (b_cnt b) (snd (fst ob))
  | TKey _ => true
  | TSub i j _ =>
      match sub_value i j b, osub_value i j ob with
      | None, None => true
      | Some x, Some y => oq_close (Some x) (Some y)
      | _, _ => false
      end
  end.

Definition opt_n_ok (expect : N) (o : option N) : bool :=
  match o with None => true | Some x => N.eqb x expect end.

Fixpoint match_res (r : req) (u : result) (o : obs) {struct r} : bool :=
  match r, u, o with
  | RMetric k f m, RM vs, OM ovs => match_vals k vs ovs
  | RBucket bk subs, RB bs other err, OB obl oother oerr =>
      let match_bucket (b : bucket) (ob : obucket) : bool :=
        okey_ok bk (b_key b) (fst (fst ob)) && N.eqb (b_cnt b) (snd (fst ob)) &&
        (fix go (ss : list req) (us : list result) (os : list obs) : bool :=
           match ss, us, os with
           | [], [], [] => true
           | s :: ss', x :: us', y :: os' => match_res s x y && go ss' us' os'
           | _, _, _ => false
           end) subs (b_subs b) (snd ob) in
      match bk with
      | BTerms f tp =>
          let n := N.to_nat (t_size tp) in
          let top := firstn n (order_buckets (t_order tp) bs) in
          match t_order tp with
          | TKey _ => all2 match_bucket top obl
          | _ =>
              all2 (ordval_ok (t_order tp)) top obl &&
              okeys_distinct (map (fun ob : obucket => fst (fst ob)) obl) &&
              forallb (fun ob : obucket => existsb (fun b => match_bucket b ob) bs) obl
          end &&
          opt_n_ok (other + sum_cnt bs - fold_right (fun ob s => (snd (fst ob) + s)%N) 0%N obl) oother &&
          opt_n_ok err oerr
      | _ => all2 match_bucket bs obl && opt_n_ok other oother && opt_n_ok err oerr
      end
  | _, _, _ => false
  end.

Definition match_top (rs : list req) (us : list result) (os : list obs) : bool :=
  (fix go (ss : list req) (us : list result) (os : list obs) : bool :=
     match ss, us, os with
     | [], [], [] => true
     | s :: ss', x :: us', y :: os' => match_res s x y && go ss' us' os'
     | _, _, _ => false
     end) rs us os.

(* merging the segment fruits in the order used by collector.rs::merge_fruits:
   pop the last, then merge the others into it from first to last *)
Definition merge_fruits (fruits : list itree) : itree :=
  match rev fruits with
  | [] => iempty
  | last :: _ => fold_left imerge (removelast fruits) last
  end.

(* ------------------------------------------------------------------------------------------ *)
(* The bucket-limit guard: AggregationResults::get_bucket_count (every bucket entry counts 1, a
   filter bucket counts only its sub-aggregations) and the test in
   IntermediateAggregationResults::into_final_result: more buckets than the limit is an ERROR,
   never a shortened result. *)
Fixpoint bucket_count (r : req) (u : result) {struct r} : N :=
  match r, u with
  | RBucket bk subs, RB bs _ _ =>
      fold_right (fun (b : bucket) n =>
                    ((match bk with BFilter _ => 0 | _ => 1 end) +
                     (fix go (ss : list req) (us : list result) : N :=
                        match ss, us with
                        | s :: ss', x :: us' => bucket_count s x + go ss' us'
                        | _, _ => 0
                        end) subs (b_subs b) + n)%N) 0%N bs
  | _, _ => 0%N
  end.
Definition bucket_count_top (rs : list req) (us : list result) : N :=
  (fix go (ss : list req) (us : list result) : N :=
     match ss, us with
     | s :: ss', x :: us' => (bucket_count s x + go ss' us')%N
     | _, _ => 0%N
     end) rs us.

Inductive final := FOk (res : list result) | FErrBucketLimit.
Definition limited (limit : N) (rs : list req) (res : list result) : final :=
  if N.ltb limit (bucket_count_top rs res) then FErrBucketLimit else FOk res.
Definition finalize_limited (hist_pos : hparams -> Q -> Z) (limit : N) (rs : list req) (t : itree) : final :=
  limited limit rs (finalize hist_pos rs t).

(* ------------------------------------------------------------------------------------------ *)
(* Partial statement for terms when segments cut their term lists at segment_size (order by count
   desc, min_doc_count 1, no sub-aggregations): every returned count is a lower bound of the true
   count and is short by at most doc_count_error_upper_bound; nothing is lost: returned counts plus
   sum_other_doc_count account for every term occurrence. *)
Definition match_terms_partial (bk : bkind) (full : list bucket) (o : obs) : bool :=
  match o with
  | OB obl (Some other) (Some err) =>
      forallb (fun ob : obucket =>
                 existsb (fun b => okey_ok bk (b_key b) (fst (fst ob)) && N.leb (snd (fst ob)) (b_cnt b)
                                   && N.leb (b_cnt b) (snd (fst ob) + err)) full) obl
      && okeys_distinct (map (fun ob : obucket => fst (fst ob)) obl)
      && N.eqb (fold_right (fun (ob : obucket) s => (snd (fst ob) + s)%N) 0%N obl + other) (sum_cnt full)
  | _ => false
  end.
Definition match_partial (hist_pos : hparams -> Q -> Z) (r : req) (docs : list doc) (o : obs) : bool :=
  match r with
  | RBucket (BTerms f tp) [] =>
      match direct hist_pos r docs with
      | RB full _ _ => N.leb (N.of_nat (length (match o with OB obl _ _ => obl | _ => [] end))) (t_size tp)
                       && match_terms_partial (BTerms f tp) full o
      | _ => false
      end
  | _ => false
  end.
