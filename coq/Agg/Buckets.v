(* C14 -- bucket aggregations: which buckets a document falls into, and which buckets the final
   result shows.

   bucket/range.rs        SegmentRangeCollector::collect: per (doc, value): bucket = get_bucket_pos(val)
                          (binary search in the contiguous ranges built by extend_validate_ranges),
                          doc_count += 1, sub_agg.push(bucket, doc)   -- once per VALUE
   bucket/histogram/histogram.rs  SegmentHistogramCollector::collect: per (doc, value) inside
                          hard_bounds: pos = floor((val - offset) / interval) [f64], doc_count += 1,
                          sub_agg.push  -- once per VALUE;  final: min_doc_count = 0 -> gaps between
                          min and max key (widened by extended_bounds, clipped by hard_bounds) are
                          filled with empty buckets, else buckets below min_doc_count are dropped
   bucket/term_agg/mod.rs SegmentTermCollector::collect: fetch_block_with_missing_unique_per_doc:
                          once per DISTINCT value of a document ("doc_count equals term count"),
                          `missing` key for documents without a value; final: min_doc_count filter,
                          order, size cut, sum_other_doc_count
   bucket/filter.rs       one bucket: doc_count of the documents matching the filter query *)
From TV Require Import Base.Prelude Agg.Intermediate Agg.Metrics.
From Coq Require Import QArith Qround Qminmax.
Local Close Scope Q_scope.

Definition fld := N.
(* a document: fast-field values per field (multi-valued; a field may be absent) *)
Definition doc := list (fld * list key).

Fixpoint dvals (f : fld) (d : doc) : list key :=
  match d with
  | [] => []
  | (g, vs) :: r => if N.eqb f g then vs ++ dvals f r else dvals f r
  end.

Definition key_num (k : key) : Z := match k with KZ z => z | KS _ => 0%Z end.
Definition key_is_num (k : key) : bool := match k with KZ _ => true | KS _ => false end.

(* values seen by a metric: `missing` stands in for a document without value
   (column_block_accessor.fetch_block_with_missing); non-numeric columns count as 0.0 *)
Definition mvals (f : fld) (missing : option Z) (d : doc) : list Z :=
  match dvals f d with
  | [] => match missing with Some m => [m] | None => [] end
  | vs => map key_num vs
  end.

Record hparams := mkH { h_interval : Q; h_offset : Q; h_mdc : N; h_hard : option (Q * Q); h_ext : option (Q * Q) }.

Inductive tord := TCount (desc : bool) | TKey (desc : bool) | TSub (i j : nat) (desc : bool).
Record tparams := mkT { t_size : N; t_mdc : N; t_order : tord; t_missing : option key }.

Inductive fpred := FAll | FHas (f : fld) (k : key) | FNot (p : fpred).

Inductive bkind :=
| BRange (f : fld) (cuts : list Z)      (* cut points c1 < ... < cn : (-oo,c1) [c1,c2) ... [cn,+oo) *)
| BHisto (f : fld) (hp : hparams)
| BTerms (f : fld) (tp : tparams)
| BFilter (p : fpred).

Fixpoint fholds (p : fpred) (d : doc) : bool :=
  match p with
  | FAll => true
  | FHas f k => existsb (key_eqb k) (dvals f d)
  | FNot q => negb (fholds q d)
  end.

(* get_bucket_pos: index of the range containing v = number of cut points <= v *)
Definition range_pos (cuts : list Z) (v : Z) : Z := Z.of_nat (length (filter (fun c => Z.leb c v) cuts)).

Definition kdedup (l : list key) : list key :=
  fold_right (fun k acc => if existsb (key_eqb k) acc then acc else k :: acc) [] l.

Definition in_bounds (b : option (Q * Q)) (v : Q) : bool :=
  match b with None => true | Some (lo, hi) => Qle_bool lo v && Qle_bool v hi end.

Definition key_of_pos (hp : hparams) (p : Z) : Q := (inject_Z p * h_interval hp + h_offset hp)%Q.

Fixpoint zrange_from (lo : Z) (n : nat) : list Z :=
  match n with O => [] | S n' => lo :: zrange_from (lo + 1) n' end.
Definition zrange (lo hi : Z) : list Z := zrange_from lo (Z.to_nat (hi - lo + 1)).

Definition count_k (k : key) (l : list key) : nat := length (filter (key_eqb k) l).

(* number of occurrences per key, as a sorted map *)
Definition key_counts (l : list key) : list (key * N) :=
  fold_right (fun k m => smerge N.add [(k, 1%N)] m) [] l.

Section Pos.
  (* get_bucket_pos_f64(val, interval, offset) = ((val - offset) / interval).floor(), computed in f64
     by the code; everything below (and every theorem) is parametric in it *)
  Variable hist_pos : hparams -> Q -> Z.

  (* the bucket keys one document contributes to (with multiplicity) *)
  Definition cls (bk : bkind) (d : doc) : list key :=
    match bk with
    | BRange f cuts => map (fun v => KZ (range_pos cuts (key_num v))) (filter key_is_num (dvals f d))
    | BHisto f hp =>
        map (fun v => KZ (hist_pos hp (inject_Z (key_num v))))
            (filter (fun v => key_is_num v && in_bounds (h_hard hp) (inject_Z (key_num v))) (dvals f d))
    | BTerms f tp =>
        match dvals f d with
        | [] => match t_missing tp with Some k => [k] | None => [] end
        | vs => kdedup vs
        end
    | BFilter p => if fholds p d then [KZ 0] else []
    end.

  (* the (documents of the) bucket k: a document is handed to the bucket's sub-aggregations once per
     value that falls into the bucket *)
  Definition docs_of (bk : bkind) (k : key) (docs : list doc) : list doc :=
    flat_map (fun d => repeat d (count_k k (cls bk d))) docs.

  (* generate_bucket_pos_with_opt_minmax / get_req_min_max *)
  Definition hist_fill_range (hp : hparams) (present : list Z) : option (Z * Z) :=
    let mm := match present with
              | [] => None
              | p :: _ => Some (key_of_pos hp p, key_of_pos hp (last present p))
              end in
    let mm := match h_ext hp, mm with
              | Some (emin, emax), Some (mn, mx) => Some (Qmin mn emin, Qmax mx emax)
              | Some e, None => Some e
              | None, m => m
              end in
    let mm := match h_hard hp, mm with
              | Some (hmin, hmax), Some (mn, mx) => Some (Qmax mn hmin, Qmin mx hmax)
              | _, m => m
              end in
    option_map (fun mm => (hist_pos hp (fst mm), hist_pos hp (snd mm))) mm.

  (* which buckets the final result shows, given the non-empty buckets (sorted, with doc counts);
     the flag tells whether the bucket exists in the intermediate result (false = a gap filled with
     `empty_from_req`) *)
  Definition shown (bk : bkind) (present : list (key * N)) : list (key * bool) :=
    match bk with
    | BRange f cuts => map (fun i => (KZ i, true)) (zrange 0 (Z.of_nat (length cuts)))
    | BHisto f hp =>
        if N.eqb (h_mdc hp) 0 then
          let fill := match hist_fill_range hp (map (fun kn => key_num (fst kn)) present) with
                      | Some (lo, hi) => zrange lo hi
                      | None => []
                      end in
          smerge (fun a _ => a) (map (fun kn => (fst kn, true)) present) (map (fun z => (KZ z, false)) fill)
        else map (fun kn => (fst kn, true)) (filter (fun kn => N.leb (h_mdc hp) (snd kn)) present)
    | BTerms f tp => map (fun kn => (fst kn, true)) (filter (fun kn => N.leb (t_mdc tp) (snd kn)) present)
    | BFilter p => [(KZ 0, true)]
    end.
End Pos.

(* the exact position function: floor((v - offset) / interval) over the rationals *)
Definition floor_pos (hp : hparams) (v : Q) : Z := Qfloor ((v - h_offset hp) / h_interval hp)%Q.

(* the exact position is the textbook histogram bucket: key(pos) <= v < key(pos + 1) *)
Lemma floor_pos_spec hp v : (0 < h_interval hp)%Q ->
  (key_of_pos hp (floor_pos hp v) <= v)%Q /\ (v < key_of_pos hp (floor_pos hp v + 1))%Q.
Proof.
  intros Hi. unfold key_of_pos, floor_pos.
  set (i := h_interval hp) in *. set (o := h_offset hp).
  set (x := ((v - o) / i)%Q).
  assert (Hne : ~ (i == 0)%Q) by (intros E; rewrite E in Hi; discriminate).
  assert (Hx : (x * i == v - o)%Q) by (unfold x; field; exact Hne).
  split.
  - assert (H : (inject_Z (Qfloor x) * i <= x * i)%Q) by (apply Qmult_le_compat_r; [apply Qfloor_le|apply Qlt_le_weak; exact Hi]).
    rewrite Hx in H. apply (Qplus_le_compat _ _ o o) in H; [|apply Qle_refl].
    setoid_replace (v - o + o)%Q with v in H by ring. exact H.
  - assert (H : (x * i < inject_Z (Qfloor x + 1) * i)%Q) by (apply Qmult_lt_compat_r; [exact Hi|apply Qlt_floor]).
    rewrite Hx in H. apply (Qplus_lt_le_compat _ _ o o) in H; [|apply Qle_refl].
    setoid_replace (v - o + o)%Q with v in H by ring. exact H.
Qed.

(* textbook membership in range bucket i of the cut points *)
Definition in_range_bucket (cuts : list Z) (i : nat) (v : Z) : Prop :=
  (match i with O => True | S j => (nth j cuts 0 <= v)%Z end) /\ (i < length cuts -> (v < nth i cuts 0)%Z).

Fixpoint zsorted (l : list Z) : Prop :=
  match l with
  | [] => True
  | x :: r => match r with [] => True | y :: _ => (x < y)%Z end /\ zsorted r
  end.

Lemma zsorted_lb x l : zsorted (x :: l) -> forall y, In y l -> (x < y)%Z.
Proof.
  revert x; induction l as [|z l IH]; intros x H y Hy; [destruct Hy|].
  cbn [zsorted] in H. destruct H as [Hxz Hr]. destruct Hy as [<-|Hy]; [exact Hxz|].
  specialize (IH z Hr y Hy). lia.
Qed.

(* range_pos is the textbook bucket: the unique i with cuts[i-1] <= v < cuts[i] *)
Lemma range_pos_spec cuts v : zsorted cuts ->
  exists i, range_pos cuts v = Z.of_nat i /\ (i <= length cuts)%nat /\ in_range_bucket cuts i v.
Proof.
  unfold range_pos. induction cuts as [|c cuts IH]; intros Hs.
  - exists O. cbn. repeat split; auto. intros H; inversion H.
  - pose proof (zsorted_lb c cuts Hs) as Hlb. cbn [zsorted] in Hs. destruct Hs as [_ Hs].
    specialize (IH Hs). destruct IH as (i & Hi & Hle & Hlo & Hhi).
    cbn [filter]. destruct (Z.leb c v) eqn:E.
    + exists (S i). cbn [length]. split; [rewrite Nat2Z.inj_succ; apply Nat2Z.inj in Hi; rewrite Hi; lia|]. split; [lia|].
      split.
      * destruct i as [|j]; cbn [nth]; [lia|exact Hlo].
      * cbn [length nth]. intros H. apply Hhi. lia.
    + assert (X : filter (fun c0 => Z.leb c0 v) cuts = []).
      { clear -Hlb E. induction cuts as [|y cuts IH]; [reflexivity|]. cbn [filter].
        assert (c < y)%Z by (apply Hlb; left; reflexivity).
        destruct (Z.leb y v) eqn:E2; [lia|]. apply IH. intros z Hz. apply Hlb; right; exact Hz. }
      rewrite X. exists O. cbn [length nth]. repeat split; try lia.
      intros _. cbn [nth]. lia.
  Qed.
