(* C14 -- proofs about Agg/Tree.v: merge is a commutative monoid on canonical trees, collection is a
   monoid homomorphism from document lists, and finalize . collect = direct. *)
From TV Require Import Base.Prelude Agg.Intermediate Agg.Metrics Agg.Buckets Agg.Tree.
From Coq Require Import QArith Permutation.
Local Close Scope Q_scope.

(* ---------------- the monoid of intermediate trees ---------------- *)
Lemma imerge_assoc x y z : iwf x -> iwf y -> iwf z -> imerge (imerge x y) z = imerge x (imerge y z).
Proof. apply (tmerge_assoc acc_merge acc_merge_assoc). Qed.
Lemma imerge_comm x y : iwf x -> iwf y -> imerge x y = imerge y x.
Proof. apply (tmerge_comm acc_merge acc_merge_comm). Qed.
Lemma imerge_empty_l x : imerge iempty x = x.
Proof. apply (tmerge_empty_l acc_merge acc0 acc_merge_0_l). Qed.
Lemma imerge_empty_r x : imerge x iempty = x.
Proof. apply (tmerge_empty_r acc_merge acc0 acc_merge_comm acc_merge_0_l). Qed.
Lemma iwf_imerge x y : iwf x -> iwf y -> iwf (imerge x y).
Proof. apply twf_tmerge. Qed.
Lemma iwf_iempty : iwf iempty.
Proof. apply twf_tempty. Qed.

Lemma payload_imerge x y : payload (imerge x y) = acc_merge (payload x) (payload y).
Proof. destruct x, y; reflexivity. Qed.
Lemma children_imerge x y : children (imerge x y) = smerge imerge (children x) (children y).
Proof. destruct x, y; reflexivity. Qed.

Definition ifold (l : list itree) : itree := fold_list imerge iempty l.

Lemma iwf_ifold l : Forall iwf l -> iwf (ifold l).
Proof. apply (inv_fold_list imerge iempty iwf iwf_iempty iwf_imerge). Qed.

Lemma ifold_app a b : Forall iwf a -> Forall iwf b -> ifold (a ++ b) = imerge (ifold a) (ifold b).
Proof. apply (fold_list_app imerge iempty iwf iwf_iempty iwf_imerge imerge_assoc imerge_empty_l). Qed.

(* ---------------- generic helpers ---------------- *)
Lemma smerge_map {V W} (f : V -> V -> V) (f' : W -> W -> W) (g : V -> W) :
  (forall x y, g (f x y) = f' (g x) (g y)) ->
  forall a b, map (fun kv => (fst kv, g (snd kv))) (smerge f a b) =
              smerge f' (map (fun kv => (fst kv, g (snd kv))) a) (map (fun kv => (fst kv, g (snd kv))) b).
Proof.
  intros H. induction a as [|[k1 v1] a IHa]; intros b; [reflexivity|].
  induction b as [|[k2 v2] b IHb]; [rewrite !smerge_nil_r; reflexivity|].
  rewrite smerge_cons. cbn [map fst snd]. rewrite smerge_cons.
  destruct (key_cmp k1 k2); cbn [map fst snd].
  - rewrite H, IHa. reflexivity.
  - rewrite IHa. reflexivity.
  - rewrite IHb. reflexivity.
Qed.

Lemma mapi_from_ext {A B} (f g : nat -> A -> B) (h : A -> B) n l :
  (forall j x, nth_error l j = Some x -> f (n + j)%nat x = h x) -> mapi_from f n l = map h l.
Proof.
  revert n; induction l as [|x l IH]; intros n H; [reflexivity|].
  cbn [mapi_from map]. f_equal.
  - specialize (H O x eq_refl). rewrite Nat.add_0_r in H. exact H.
  - apply IH. intros j y Hj. specialize (H (S j) y Hj). rewrite Nat.add_succ_r in H. exact H.
Qed.

(* ---------------- sub_children ---------------- *)
Lemma ikey_lt n m : (n < m)%nat -> key_cmp (ikey n) (ikey m) = Lt.
Proof. intros H. unfold ikey. cbn [key_cmp]. apply Z.compare_lt_iff. lia. Qed.

Lemma sorted_mapi_ikey {A} (g : A -> itree) n l : sorted (mapi_from (fun i t => (ikey i, g t)) n l).
Proof.
  revert n; induction l as [|x l IH]; intros n; [exact I|].
  cbn [mapi_from sorted]. split; [|apply IH].
  destruct l as [|y l]; [exact I|]. cbn [mapi_from lb]. apply ikey_lt. lia.
Qed.

Lemma in_mapi_ikey {A} (g : A -> itree) n l k v : In (k, v) (mapi_from (fun i t => (ikey i, g t)) n l) -> exists x, In x l /\ v = g x.
Proof.
  revert n; induction l as [|x l IH]; intros n; cbn [mapi_from In]; [tauto|].
  intros [E|H]; [injection E as _ <-; exists x; auto|].
  destruct (IH _ H) as (y & Hy & ->). exists y; auto.
Qed.

Lemma lookup_mapi_ikey {A} (g : A -> itree) n l j :
  lookup (ikey (n + j)) (mapi_from (fun i t => (ikey i, g t)) n l) = option_map g (nth_error l j).
Proof.
  revert n j; induction l as [|x l IH]; intros n j; [destruct j; reflexivity|].
  cbn [mapi_from lookup]. destruct j as [|j].
  - rewrite Nat.add_0_r, key_cmp_refl. reflexivity.
  - assert (E : key_cmp (ikey (n + S j)) (ikey n) = Gt).
    { rewrite key_cmp_antisym, ikey_lt by lia. reflexivity. }
    rewrite E. replace (n + S j)%nat with (S n + j)%nat by lia. apply IH.
Qed.

Lemma smerge_mapi_ikey {A} (F G : A -> itree) n l :
  smerge imerge (mapi_from (fun i t => (ikey i, F t)) n l) (mapi_from (fun i t => (ikey i, G t)) n l)
  = mapi_from (fun i t => (ikey i, imerge (F t) (G t))) n l.
Proof.
  revert n; induction l as [|x l IH]; intros n; [reflexivity|].
  cbn [mapi_from]. rewrite smerge_cons, key_cmp_refl. f_equal. apply IH.
Qed.

Lemma sub_children_map {A} (g : A -> itree) l : sub_children (map g l) = mapi_from (fun i t => (ikey i, g t)) 0 l.
Proof.
  unfold sub_children, mapi. generalize 0%nat. induction l as [|x l IH]; intros n; [reflexivity|].
  cbn [map mapi_from]. f_equal. apply IH.
Qed.

Lemma iwf_node_subs {A} (g : A -> itree) a l : (forall x, In x l -> iwf (g x)) -> iwf (Node a (sub_children (map g l))).
Proof.
  intros H. apply twf_unfold. rewrite sub_children_map. split; [apply sorted_mapi_ikey|].
  intros k v Hin. apply in_mapi_ikey in Hin. destruct Hin as (x & Hx & ->). apply H; exact Hx.
Qed.

Lemma child_node_subs {A} (g : A -> itree) a l j x :
  nth_error l j = Some x -> child j (Node a (sub_children (map g l))) = g x.
Proof.
  intros H. unfold child. cbn [children]. rewrite sub_children_map.
  change (ikey j) with (ikey (0 + j)). rewrite lookup_mapi_ikey, H. reflexivity.
Qed.

Lemma child_iempty j : child j iempty = iempty.
Proof. reflexivity. Qed.

Lemma imerge_node_subs {A} (F G : A -> itree) a b l :
  imerge (Node a (sub_children (map F l))) (Node b (sub_children (map G l)))
  = Node (acc_merge a b) (sub_children (map (fun x => imerge (F x) (G x)) l)).
Proof.
  unfold imerge. cbn [tmerge]. fold imerge. rewrite !sub_children_map, smerge_mapi_ikey. reflexivity.
Qed.

(* ---------------- group ---------------- *)
Definition sel (k : key) (kes : list (key * itree)) : list itree :=
  map snd (filter (fun ke => key_eqb k (fst ke)) kes).
Definition ofold (l : list itree) : option itree :=
  match l with [] => None | _ => Some (ifold l) end.

Lemma sorted_group kes : sorted (group kes).
Proof.
  induction kes as [|[k e] kes IH]; [exact I|].
  cbn [group fold_right]. apply sorted_smerge; [cbn; auto|exact IH].
Qed.

Lemma wf_group kes : (forall k e, In (k, e) kes -> iwf e) -> forall k e, In (k, e) (group kes) -> iwf e.
Proof.
  induction kes as [|[k0 e0] kes IH]; intros H; [intros ? ? []|].
  cbn [group fold_right]. fold (group kes).
  apply smerge_all with (P := iwf).
  - intros k v [E|[]]. injection E as <- <-. apply (H k0); left; reflexivity.
  - apply IH. intros k e Hin. apply (H k); right; exact Hin.
  - intros k x y [E|[]] Hy. injection E as <- <-. apply iwf_imerge.
    + apply (H k0); left; reflexivity.
    + revert Hy. apply IH. intros k' e Hin. apply (H k'); right; exact Hin.
Qed.

Lemma group_app a b : (forall k e, In (k, e) a -> iwf e) -> (forall k e, In (k, e) b -> iwf e) ->
  group (a ++ b) = smerge imerge (group a) (group b).
Proof.
  intros Ha Hb. induction a as [|[k0 e0] a IH]; [reflexivity|].
  cbn [app group fold_right]. fold (group (a ++ b)). fold (group a).
  rewrite IH by (intros k e Hin; apply (Ha k); right; exact Hin).
  symmetry. apply smerge_assoc; try apply sorted_group; [cbn; auto|].
  intros k x y z [E|[]] Hy Hz. injection E as <- <-.
  apply imerge_assoc.
  - apply (Ha k0); left; reflexivity.
  - revert Hy. apply wf_group. intros k' e Hin. apply (Ha k'); right; exact Hin.
  - revert Hz. apply wf_group. exact Hb.
Qed.

Lemma lookup_group k kes : lookup k (group kes) = ofold (sel k kes).
Proof.
  induction kes as [|[k0 e0] kes IH]; [reflexivity|].
  cbn [group fold_right]. fold (group kes).
  rewrite lookup_smerge; [|cbn; auto|apply sorted_group].
  rewrite IH. unfold sel. cbn [filter fst lookup]. unfold key_eqb.
  destruct (key_cmp k k0); cbn [map snd omerge].
  - destruct (map snd (filter _ kes)) eqn:E; cbn [ofold omerge].
    + unfold ifold. cbn. rewrite imerge_empty_r. reflexivity.
    + reflexivity.
  - destruct (ofold _); reflexivity.
  - destruct (ofold _); reflexivity.
Qed.

Lemma counts_group kes : (forall k e, In (k, e) kes -> a_cnt (payload e) = 1%N) ->
  map (fun ke => (fst ke, a_cnt (payload (snd ke)))) (group kes) = key_counts (map fst kes).
Proof.
  induction kes as [|[k0 e0] kes IH]; intros H; [reflexivity|].
  cbn [group fold_right map fst key_counts]. fold (group kes). fold (key_counts (map fst kes)).
  rewrite (smerge_map imerge N.add (fun e => a_cnt (payload e))).
  - cbn [map fst snd]. rewrite (H k0 e0 (or_introl eq_refl)). rewrite IH; [reflexivity|].
    intros k e Hin. apply (H k); right; exact Hin.
  - intros x y. rewrite payload_imerge. reflexivity.
Qed.

Lemma sel_app k a b : sel k (a ++ b) = sel k a ++ sel k b.
Proof. unfold sel. rewrite filter_app, map_app. reflexivity. Qed.

Lemma sel_const k (e : itree) keys : sel k (map (fun k' => (k', e)) keys) = repeat e (count_k k keys).
Proof.
  unfold sel, count_k. induction keys as [|k' keys IH]; [reflexivity|].
  cbn [map filter fst]. destruct (key_eqb k k'); cbn [map snd length repeat]; rewrite IH; reflexivity.
Qed.

Lemma map_repeat' {A B} (f : A -> B) x n : map f (repeat x n) = repeat (f x) n.
Proof. induction n; cbn; congruence. Qed.

(* ---------------- collection ---------------- *)
Section Pos.
  Variable hist_pos : hparams -> Q -> Z.
  Notation cls := (cls hist_pos).
  Notation shown := (shown hist_pos).
  Notation docs_of := (docs_of hist_pos).
  Notation cdoc := (cdoc hist_pos).
  Notation cdocs := (cdocs hist_pos).
  Notation coll := (coll hist_pos).
  Notation collect_seg := (collect_seg hist_pos).
  Notation fin := (fin hist_pos).
  Notation fin_top := (fin_top hist_pos).
  Notation direct := (direct hist_pos).
  Notation direct_top := (direct_top hist_pos).
  Notation empty_result := (empty_result hist_pos).

  Definition entry_of (subs : list req) (d : doc) : itree := entry_node 1 (map (fun s => cdoc s d) subs).
  Definition kes_of (bk : bkind) (subs : list req) (docs : list doc) : list (key * itree) :=
    flat_map (fun d => map (fun k => (k, entry_of subs d)) (cls bk d)) docs.

  Lemma iwf_cdoc r : forall d, iwf (cdoc r d).
  Proof.
    induction r as [k f m|bk subs IH] using req_ind'; intros d.
    - cbn [Tree.cdoc]. apply twf_unfold. split; [exact I|intros ? ? []].
    - cbn [Tree.cdoc]. apply twf_unfold. split; [apply sorted_group|].
      apply wf_group. intros k e Hin. apply in_map_iff in Hin. destruct Hin as (k' & E & _).
      injection E as _ <-. unfold entry_node. apply iwf_node_subs. intros s Hs. apply IH; exact Hs.
  Qed.

  Lemma iwf_coll r docs : iwf (coll r docs).
  Proof.
    unfold Tree.coll. apply iwf_ifold. apply Forall_forall. intros t Ht.
    apply in_map_iff in Ht. destruct Ht as (d & <- & _). apply iwf_cdoc.
  Qed.

  Lemma iwf_cdocs rs d : iwf (cdocs rs d).
  Proof. unfold Tree.cdocs. apply iwf_node_subs. intros r _. apply iwf_cdoc. Qed.

  Lemma iwf_entry_of subs d : iwf (entry_of subs d).
  Proof. unfold entry_of, entry_node. apply iwf_node_subs. intros s _. apply iwf_cdoc. Qed.

  Lemma coll_cons r d docs : coll r (d :: docs) = imerge (cdoc r d) (coll r docs).
  Proof. reflexivity. Qed.

  Lemma coll_nil r : coll r [] = iempty.
  Proof. reflexivity. Qed.

  Lemma coll_single r d : coll r [d] = cdoc r d.
  Proof. rewrite coll_cons, coll_nil. apply imerge_empty_r. Qed.

  (* the segment collector is the fold of the per-document contributions *)
  Lemma collect_seg_ifold rs docs : collect_seg rs docs = ifold (map (cdocs rs) docs).
  Proof.
    unfold Tree.collect_seg.
    assert (E : forall acc, fold_left (fun t d => imerge t (cdocs rs d)) docs acc = fold_left imerge (map (cdocs rs) docs) acc).
    { induction docs as [|d docs IH]; intros acc; [reflexivity|]. cbn [fold_left map]. apply IH. }
    rewrite E.
    apply (fold_left_fold_list imerge iempty iwf iwf_iempty iwf_imerge imerge_assoc imerge_empty_l imerge_empty_r).
    apply Forall_forall. intros t Ht. apply in_map_iff in Ht. destruct Ht as (d & <- & _). apply iwf_cdocs.
  Qed.

  Lemma iwf_collect_seg rs docs : iwf (collect_seg rs docs).
  Proof.
    rewrite collect_seg_ifold. apply iwf_ifold. apply Forall_forall. intros t Ht.
    apply in_map_iff in Ht. destruct Ht as (d & <- & _). apply iwf_cdocs.
  Qed.

  (* collection is a monoid homomorphism: a segment holding a ++ b = merge of two segments *)
  Lemma collect_seg_app rs a b : collect_seg rs (a ++ b) = imerge (collect_seg rs a) (collect_seg rs b).
  Proof.
    rewrite !collect_seg_ifold, map_app. apply ifold_app; apply Forall_forall; intros t Ht;
      apply in_map_iff in Ht; destruct Ht as (d & <- & _); apply iwf_cdocs.
  Qed.

  Lemma collect_seg_concat rs parts : ifold (map (collect_seg rs) parts) = collect_seg rs (concat parts).
  Proof.
    induction parts as [|p parts IH]; [reflexivity|].
    cbn [map concat]. rewrite collect_seg_app, <- IH. reflexivity.
  Qed.

  (* top level: the tree of a segment is the name -> aggregation map of the per-aggregation trees *)
  Lemma collect_seg_top rs docs :
    docs <> [] -> collect_seg rs docs = Node acc0 (sub_children (map (fun r => coll r docs) rs)).
  Proof.
    rewrite collect_seg_ifold. induction docs as [|d docs IH]; [congruence|]. intros _.
    cbn [map]. change (ifold (cdocs rs d :: map (cdocs rs) docs)) with (imerge (cdocs rs d) (ifold (map (cdocs rs) docs))).
    destruct docs as [|d' docs].
    - cbn [map]. change (ifold []) with iempty. rewrite imerge_empty_r. unfold Tree.cdocs. f_equal. f_equal.
      apply map_ext. intros r. rewrite coll_single. reflexivity.
    - rewrite IH by discriminate. unfold Tree.cdocs. rewrite imerge_node_subs. reflexivity.
  Qed.

  Lemma fin_top_collect rs docs : fin_top rs (collect_seg rs docs) = map (fun r => fin r (coll r docs)) rs.
  Proof.
    unfold Tree.fin_top, mapi. apply (mapi_from_ext _ (fun _ r => fin r (coll r docs))).
    intros j r Hj. cbn [Nat.add]. destruct docs as [|d docs].
    - reflexivity.
    - rewrite collect_seg_top by discriminate. rewrite (child_node_subs _ _ _ _ _ Hj). reflexivity.
  Qed.

  (* ---- one bucket aggregation ---- *)
  Lemma coll_bucket bk subs docs : coll (RBucket bk subs) docs = Node acc0 (group (kes_of bk subs docs)).
  Proof.
    induction docs as [|d docs IH]; [reflexivity|].
    rewrite coll_cons, IH. cbn [Tree.cdoc]. unfold imerge at 1. cbn [tmerge]. fold imerge.
    f_equal. unfold kes_of. cbn [flat_map]. rewrite group_app; [reflexivity| |].
    - intros k e Hin. apply in_map_iff in Hin. destruct Hin as (k' & E & _). injection E as _ <-. apply iwf_entry_of.
    - intros k e Hin. apply in_flat_map in Hin. destruct Hin as (d' & _ & Hin).
      apply in_map_iff in Hin. destruct Hin as (k' & E & _). injection E as _ <-. apply iwf_entry_of.
  Qed.

  Lemma sel_kes_of bk subs k docs : sel k (kes_of bk subs docs) = map (entry_of subs) (docs_of bk k docs).
  Proof.
    unfold kes_of, Buckets.docs_of. induction docs as [|d docs IH]; [reflexivity|].
    cbn [flat_map]. rewrite sel_app, map_app, IH, sel_const, map_repeat'. reflexivity.
  Qed.

  Lemma keys_kes_of bk subs docs : map fst (kes_of bk subs docs) = flat_map (cls bk) docs.
  Proof.
    unfold kes_of. induction docs as [|d docs IH]; [reflexivity|].
    cbn [flat_map]. rewrite map_app, IH, map_map. cbn [fst]. rewrite map_id. reflexivity.
  Qed.

  Lemma acc_cnt_merge a b : acc_merge (acc_cnt a) (acc_cnt b) = acc_cnt (a + b).
  Proof. reflexivity. Qed.

  (* merging the entries of the documents of a bucket = { doc_count = their number,
     sub_aggregation = collection of the sub-requests over exactly these documents } *)
  Lemma ifold_entries subs dk : dk <> [] ->
    ifold (map (entry_of subs) dk) = entry_node (N.of_nat (length dk)) (map (fun s => coll s dk) subs).
  Proof.
    induction dk as [|d dk IH]; [congruence|]. intros _.
    cbn [map]. change (ifold (entry_of subs d :: map (entry_of subs) dk)) with (imerge (entry_of subs d) (ifold (map (entry_of subs) dk))).
    destruct dk as [|d' dk].
    - cbn [map]. change (ifold []) with iempty. rewrite imerge_empty_r. unfold entry_of. cbn [length]. f_equal.
      apply map_ext. intros s. rewrite coll_single. reflexivity.
    - rewrite IH by discriminate. unfold entry_of, entry_node. rewrite imerge_node_subs, acc_cnt_merge.
      f_equal. cbn [length]. f_equal. lia.
  Qed.

  Lemma payload_coll_metric k f m docs :
    payload (coll (RMetric k f m) docs) = acc_spec (flat_map (mvals f m) docs).
  Proof.
    induction docs as [|d docs IH]; [reflexivity|].
    rewrite coll_cons, payload_imerge, IH. cbn [Tree.cdoc payload flat_map].
    rewrite acc_of_vals_spec, acc_spec_app. reflexivity.
  Qed.

  (* finalising the collection of ANY document list = the direct evaluation on that list *)
  Theorem fin_coll_direct r : forall docs, fin r (coll r docs) = direct r docs.
  Proof.
    induction r as [k f m|bk subs IH] using req_ind'; intros docs.
    - cbn [Tree.fin Tree.direct]. rewrite payload_coll_metric. reflexivity.
    - rewrite coll_bucket. cbn [Tree.fin Tree.direct children payload a_other a_err acc0].
      rewrite counts_group.
      2:{ intros k e Hin. apply in_flat_map in Hin. destruct Hin as (d & _ & Hin).
          apply in_map_iff in Hin. destruct Hin as (k' & E & _). injection E as _ <-. reflexivity. }
      rewrite keys_kes_of. f_equal. apply map_ext. intros [k [|]]; cbn [fst snd]; [|reflexivity].
      rewrite lookup_group, sel_kes_of.
      destruct (docs_of bk k docs) as [|d dk] eqn:E.
      + cbn [map ofold length]. f_equal.
        unfold mapi. apply (mapi_from_ext _ (fun _ s => fin s iempty)).
        intros j s Hj. rewrite child_iempty. rewrite <- (coll_nil s). apply IH. eapply nth_error_In; eauto.
      + set (dk' := d :: dk). assert (Hne : dk' <> []) by discriminate.
        change (map (entry_of subs) dk') with (map (entry_of subs) dk').
        unfold ofold. change (map (entry_of subs) (d :: dk)) with (map (entry_of subs) dk').
        destruct (map (entry_of subs) dk') eqn:E2; [discriminate|]. rewrite <- E2.
        rewrite ifold_entries by exact Hne. unfold entry_node. cbn [payload a_cnt acc_cnt]. f_equal.
        unfold mapi. apply (mapi_from_ext _ (fun _ s => fin s (coll s dk'))).
        intros j s Hj. cbn [Nat.add]. rewrite (child_node_subs _ _ _ _ _ Hj).
        apply IH. eapply nth_error_In; eauto.
  Qed.

  Theorem fin_top_direct rs docs : fin_top rs (collect_seg rs docs) = direct_top rs docs.
  Proof. rewrite fin_top_collect. unfold Tree.direct_top. apply map_ext. intros r. apply fin_coll_direct. Qed.

  (* ---- any fold shape over any permutation of the segment fruits ---- *)
  Definition ieval (s : @shape itree) : itree := eval imerge iempty s.

  Lemma ieval_perm s1 s2 : Permutation (leaves s1) (leaves s2) -> Forall iwf (leaves s1) -> ieval s1 = ieval s2.
  Proof.
    apply (eval_perm imerge iempty iwf iwf_iempty iwf_imerge imerge_assoc imerge_comm imerge_empty_l imerge_empty_r).
  Qed.

  Lemma Forall_iwf_fruits rs parts : Forall iwf (map (collect_seg rs) parts).
  Proof. apply Forall_forall. intros t Ht. apply in_map_iff in Ht. destruct Ht as (p & <- & _). apply iwf_collect_seg. Qed.

  Lemma ieval_fruits rs parts s :
    Permutation (leaves s) (map (collect_seg rs) parts) -> ieval s = collect_seg rs (concat parts).
  Proof.
    intros HP. rewrite <- collect_seg_concat.
    assert (Hwf : Forall iwf (leaves s)).
    { eapply Permutation_Forall; [apply Permutation_sym; exact HP|apply Forall_iwf_fruits]. }
    unfold ieval. rewrite (eval_fold imerge iempty iwf iwf_iempty iwf_imerge imerge_assoc imerge_empty_l imerge_empty_r s Hwf).
    apply (fold_list_perm imerge iempty iwf iwf_iempty iwf_imerge imerge_assoc imerge_comm); assumption.
  Qed.

  (* the direct evaluation does not depend on the order of the documents *)
  Lemma direct_top_perm rs docs docs' : Permutation docs docs' -> direct_top rs docs = direct_top rs docs'.
  Proof.
    intros HP. rewrite <- !fin_top_direct. f_equal. rewrite !collect_seg_ifold.
    apply (fold_list_perm imerge iempty iwf iwf_iempty iwf_imerge imerge_assoc imerge_comm).
    - apply Permutation_map. exact HP.
    - apply Forall_forall. intros t Ht. apply in_map_iff in Ht. destruct Ht as (d & <- & _). apply iwf_cdocs.
  Qed.

  (* the order used by collector.rs::merge_fruits is one of these shapes *)
  Lemma merge_fruits_ifold l : Forall iwf l -> merge_fruits l = ifold l.
  Proof.
    intros H. unfold merge_fruits. destruct l as [|x l] using rev_ind; [reflexivity|].
    rewrite rev_app_distr. cbn [rev app]. rewrite removelast_last.
    apply Forall_app in H. destruct H as [Hl Hx]. inversion Hx as [|? ? Hx' _]; subst.
    assert (G : forall acc, iwf acc -> fold_left imerge l acc = imerge acc (ifold l)).
    { clear -Hl. induction Hl as [|y l Hy Hl IH]; intros acc Ha; cbn [fold_left].
      - change (ifold []) with iempty. rewrite imerge_empty_r. reflexivity.
      - rewrite IH by (apply iwf_imerge; assumption).
        change (ifold (y :: l)) with (imerge y (ifold l)). apply imerge_assoc; auto. apply iwf_ifold; exact Hl. }
    rewrite G by exact Hx'. rewrite ifold_app by (auto).
    change (ifold [x]) with (imerge x iempty). rewrite imerge_empty_r.
    apply imerge_comm; [exact Hx'|apply iwf_ifold; exact Hl].
  Qed.
End Pos.
