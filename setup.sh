#!/bin/bash
# MANIFEST.setup_cmd: build the framework from files on disk only (offline).
set -e
cd "$(dirname "$0")"
export CARGO_NET_OFFLINE=true
mkdir -p .build
cp -f /repo/Cargo.lock harness/Cargo.lock
python3 tools/pin.py --json .build/pins.json || true
python3 - <<'PY'
import sys; sys.path.insert(0, "tools")
import vlib
vlib.ensure_makefile()
PY
(cd coq && timeout 3000 make -j16 -k > ../.build/coq_setup.log 2>&1 || true)
(cd harness && timeout 3000 cargo build --offline --release --bins > ../.build/cargo_setup.log 2>&1 || true)
tail -n 3 .build/coq_setup.log .build/cargo_setup.log
echo setup done
